------------------------------- MODULE Closure -------------------------------
(***************************************************************************)
(* C11 - every referenced class is declared or imported, and every import  *)
(* resolves.                                                               *)
(*                                                                         *)
(* Universe U3: a public class T placed and re-exported as in universe U1  *)
(* (Package.tla), and a second module R of the same scenario package that  *)
(* refers to T in one of five positions.  In the design the imports of a   *)
(* file are computed from the *final home* of what it references (action   *)
(* Emit below), so closure is preserved when declarations move.            *)
(***************************************************************************)
EXTENDS Naturals, Sequences, FiniteSets, TLC, Json

CONSTANTS Tier
Pk == INSTANCE Package WITH sc <- 0, pc <- "", pub <- {}, occ <- {}

Positions == {"param", "result", "attr", "super", "generic"}
RPlaces == {"root", "pubsub"}
Targets(tier) == { s \in Pk!Universe("thorough") : s.kind = "class" /\ s.dname = "pubdecl" /\ Pk!PublicTop(s)
                                                /\ (tier = "thorough" \/ s.reexp.alias # "_privalias") }
Universe(tier) ==
  { [t |-> t, rplace |-> rp, pos |-> p, via |-> v, own |-> o] :
      t \in Targets(tier), rp \in RPlaces, p \in Positions, v \in {"def", "reexp"}, o \in BOOLEAN }
Legal(u) ==
  /\ (u.via = "reexp" => u.t.reexp.form \in {"name", "alias"} /\ ~Pk!PrivateName(Pk!ExposedName(u.t)))
  /\ (u.own => u.pos = "param" /\ u.rplace = "root" /\ u.via = "def")
  /\ (Tier = "thorough" \/ u.pos \in {"param", "super", "generic"} \/ u.t.reexp.form \in {"none", "name", "alias"})

(* files of a scenario in the promised design: <<home (package segments), declared names, referenced names, imports>> *)
ShownName(t) == IF t.reexp.form = "alias" /\ Pk!ChosenHome(t) = Pk!ReexpHome(t) THEN t.reexp.alias ELSE t.dname
THome(t) == Pk!ChosenHome(t)
RHome(u) == Pk!PlacePath(u.rplace) \o <<"refmod">>

VARIABLES sc, files, pc
vars == <<sc, files, pc>>
Init == sc \in { u \in Universe(Tier) : Legal(u) } /\ files = {} /\ pc = "emit-target"
EmitTarget ==
  /\ pc = "emit-target"
  /\ files' = { [home |-> THome(sc.t), decls |-> { ShownName(sc.t) }, refs |-> IF sc.own THEN { ShownName(sc.t) } ELSE {}, imports |-> {}] }
  /\ pc' = "emit-ref" /\ UNCHANGED sc
EmitRef ==     \* the import names the package where T was finally emitted and the name it has there
  /\ pc = "emit-ref"
  /\ files' = files \cup { [home |-> RHome(sc), decls |-> { "holder" }, refs |-> { ShownName(sc.t) }, imports |-> { <<THome(sc.t), ShownName(sc.t)>> }] }
  /\ pc' = "done" /\ UNCHANGED sc
Next == EmitTarget \/ EmitRef
Spec == Init /\ [][Next]_vars /\ WF_vars(Next)
Inv_C11_Closed == \A f \in files : \A r \in f.refs : r \in f.decls \/ \E i \in f.imports : i[2] = r
Inv_C11_Resolves == pc = "done" => \A f \in files : \A i \in f.imports : \E g \in files : g.home = i[1] /\ i[2] \in g.decls
Live_Done == <>(pc = "done")
Emit == pc = "done" => PrintT(ToJson(sc))

(***************************************************************************)
(* Judging a real run (one pack).  Names are the names as written in the   *)
(* stubs.                                                                  *)
(* obs = [files: Seq [rel, package, decls: Seq, tparams..., imports: Seq [from, name], refs: Seq [name, pos, sc, via, own, tparam: BOOLEAN]]] *)
(***************************************************************************)
Builtins == {"Int", "String", "Boolean", "Float", "Any", "Nothing", "List", "Map", "Set", "Tuple"}
ToSet(seq) == { seq[j] : j \in 1..Len(seq) }
RefSig(r) ==
  IF r.kind # "u3" THEN r.kind
  ELSE LET t == r.sc.t IN
       r.pos \o ":" \o t.reexp.form
       \o (IF t.reexp.form \in {"alias", "modalias"} THEN (IF Pk!PrivateName(t.reexp.alias) THEN "-private-alias" ELSE "-public-alias") ELSE "")
       \o ":" \o (IF Pk!ChosenHome(t) = Pk!ModuleHome(t) THEN "stays-in-module" ELSE "moved-to-package")
       \o ":" \o (IF r.sc.own THEN "own-module" ELSE "via-" \o r.sc.via)
ImpSig(i) ==
  IF i.kind # "u3" THEN i.kind
  ELSE LET t == i.sc.t IN
       t.reexp.form \o (IF t.reexp.form \in {"alias", "modalias"} THEN (IF Pk!PrivateName(t.reexp.alias) THEN "-private-alias" ELSE "-public-alias") ELSE "")
       \o ":" \o (IF Pk!ChosenHome(t) = Pk!ModuleHome(t) THEN "stays-in-module" ELSE "moved-to-package")
       \o ":" \o (IF Pk!PrivateName(t.stem) THEN "private-module" ELSE "public-module") \o ":via-" \o i.sc.via
JudgeRun(obs) ==
  LET F == ToSet(obs.files)
      declaredIn(f) == ToSet(f.decls)
      importedIn(f) == { i.name : i \in ToSet(f.imports) }
      unresolved(f) == { r \in ToSet(f.refs) : ~r.tparam /\ r.name \notin Builtins /\ r.name \notin declaredIn(f) /\ r.name \notin importedIn(f) }
      samePkg(f, r) == \E g \in F : g.rel # f.rel /\ g.package = f.package /\ r.name \in ToSet(g.decls)
  IN UNION {
       { [property |-> "C11", clause |-> "Closed",
          sig |-> (IF samePkg(f, r) THEN "same-package-other-file:" ELSE "unresolved:") \o RefSig(r) \o (IF obs.nc THEN ":nc" ELSE ""),
          expected |-> "declared or imported in " \o f.rel, observed |-> r.name] : r \in unresolved(f) }
       \cup
       { [property |-> "C11", clause |-> "Resolves",
          sig |-> (IF \E g \in F : g.package = i.from THEN "name-not-declared-in-package:" ELSE "no-such-package:") \o ImpSig(i) \o (IF obs.nc THEN ":nc" ELSE ""),
          expected |-> "a stub with package " \o i.from \o " declaring " \o i.name, observed |-> f.rel]
         : i \in { i \in ToSet(f.imports) : ~\E g \in F : g.package = i.from /\ i.name \in ToSet(g.decls) } }
     : f \in F }
=============================================================================
