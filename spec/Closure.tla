------------------------------- MODULE Closure -------------------------------
(***************************************************************************)
(* C11 - every referenced class is declared or imported, and every import  *)
(* resolves.                                                               *)
(*                                                                         *)
(* Universe U3: a public class T placed and re-exported as in universe U1  *)
(* (Package.tla), and a second module R of the same scenario package that  *)
(* refers to T in one of five positions.  In the design the imports of a   *)
(* file are computed from the *final home* of what it references (action   *)
(* Emit below), so closure is preserved when declarations move.            *)
(***************************************************************************)
EXTENDS Naturals, Sequences, FiniteSets, TLC, Json

CONSTANTS Tier
Pk == INSTANCE Package WITH sc <- 0, pc <- "", pub <- {}, occ <- {}

Positions == {"param", "result", "attr", "super", "generic"}
RPlaces == {"root", "pubsub"}
Targets(tier) == { s \in Pk!Universe("thorough") : s.kind = "class" /\ s.dname = "pubdecl" /\ Pk!PublicTop(s)
                                                /\ (tier = "thorough" \/ s.reexp.alias # "_privalias") }
(* a second package, not an ancestor of T's module, that re-exports T by name as well: <<segments below the scenario directory,   *)
(* does it sort before the first re-exporter?>>.  The declaration goes to the re-exporter with the fewest segments (ties: the one  *)
(* that sorts first); "frontendpkgx" has fewer segments but a longer spelling than subp/deep, "zz" ties with subp and is shorter.  *)
NoSecond == [segs |-> <<>>, first |-> FALSE]
Seconds == { [segs |-> <<"frontendpkgx">>, first |-> TRUE], [segs |-> <<"zz">>, first |-> FALSE], [segs |-> <<"aaaaaa">>, first |-> TRUE],
             [segs |-> <<"ab", "cd">>, first |-> TRUE] }
Universe(tier) ==
  { [t |-> t, rplace |-> rp, pos |-> p, via |-> v, own |-> o, second |-> NoSecond] :
      t \in Targets(tier), rp \in RPlaces, p \in Positions, v \in {"def", "reexp"}, o \in BOOLEAN }
  \cup { [t |-> t, rplace |-> "root", pos |-> p, via |-> "def", own |-> FALSE, second |-> s2] :
      t \in { t \in Targets(tier) : t.reexp.form \in {"none", "name", "module"} /\ t.stem = "pubmod" }, p \in {"param", "super"}, s2 \in Seconds }
Legal(u) ==
  /\ (u.via = "reexp" => u.t.reexp.form \in {"name", "alias"} /\ ~Pk!PrivateName(Pk!ExposedName(u.t)))
  /\ (u.own => u.pos = "param" /\ u.rplace = "root" /\ u.via = "def")
  /\ (Tier = "thorough" \/ u.pos \in {"param", "super", "generic"} \/ u.t.reexp.form \in {"none", "name", "alias"})

(* files of a scenario in the promised design: <<home (package segments), declared names, referenced names, imports>> *)
ShownName(t) == IF t.reexp.form = "alias" /\ Pk!ChosenHome(t) = Pk!ReexpHome(t) THEN t.reexp.alias ELSE t.dname
Home1(t) == Pk!ChosenHome(t)
THome(u) ==
  LET h1 == Home1(u.t)
      h2 == u.second.segs
  IN IF h2 = <<>> THEN h1
     ELSE IF h1 = Pk!ModuleHome(u.t) \/ Len(h2) < Len(h1) THEN h2        \* a module is left for any re-exporting package
     ELSE IF Len(h2) > Len(h1) THEN h1
     ELSE IF u.second.first THEN h2 ELSE h1
RHome(u) == Pk!PlacePath(u.rplace) \o <<"refmod">>

(* reference shapes outside U3 that are replayed in one fixed package (harness MISC): the root package re-exports a class whose own       *)
(* signature needs an import; a module uses a class of a module whose name extends its own (model / model_utils); a module uses a class  *)
(* of another library while the package has a class of the same name (decimal.Decimal / pkg.bigdecimal.Decimal); a nested class used     *)
(* from another module.  JudgeRun judges them like every other file: referenced names are declared or imported, imports resolve.         *)
MiscShapes == {"rootrx", "prefixsib", "samesuffix", "nested", "exccls", "rawbuiltin", "newtype", "condcls", "privcls"}      \* ... an exception class of the package; bytes / object / complex
VARIABLES sc, files, pc
vars == <<sc, files, pc>>
Init == sc \in { u \in Universe(Tier) : Legal(u) } /\ files = {} /\ pc = "emit-target"
EmitTarget ==
  /\ pc = "emit-target"
  /\ files' = { [home |-> THome(sc), decls |-> { ShownName(sc.t) }, refs |-> IF sc.own THEN { ShownName(sc.t) } ELSE {}, imports |-> {}] }
  /\ pc' = "emit-ref" /\ UNCHANGED sc
EmitRef ==     \* the import names the package where T was finally emitted and the name it has there
  /\ pc = "emit-ref"
  /\ files' = files \cup { [home |-> RHome(sc), decls |-> { "holder" }, refs |-> { ShownName(sc.t) }, imports |-> { <<THome(sc), ShownName(sc.t)>> }] }
  /\ pc' = "done" /\ UNCHANGED sc
Next == EmitTarget \/ EmitRef
Spec == Init /\ [][Next]_vars /\ WF_vars(Next)
Inv_C11_Closed == \A f \in files : \A r \in f.refs : r \in f.decls \/ \E i \in f.imports : i[2] = r
Inv_C11_Resolves == pc = "done" => \A f \in files : \A i \in f.imports : \E g \in files : g.home = i[1] /\ i[2] \in g.decls
Live_Done == <>(pc = "done")
Emit == pc = "done" => PrintT(ToJson(sc))

(***************************************************************************)
(* Judging a real run (one pack).  Names are the names as written in the   *)
(* stubs.                                                                  *)
(* obs = [files: Seq [rel, package, decls: Seq, tparams..., imports: Seq [from, name], refs: Seq [name, pos, sc, via, own, tparam: BOOLEAN]]] *)
(***************************************************************************)
Builtins == {"Int", "String", "Boolean", "Float", "Any", "Nothing", "List", "Map", "Set", "Tuple"}
ToSet(seq) == { seq[j] : j \in 1..Len(seq) }
RefSig(r) ==
  IF r.kind # "u3" THEN r.kind
  ELSE LET t == r.sc.t IN
       r.pos \o ":" \o t.reexp.form
       \o (IF t.reexp.form \in {"alias", "modalias"} THEN (IF Pk!PrivateName(t.reexp.alias) THEN "-private-alias" ELSE "-public-alias") ELSE "")
       \o ":" \o (IF Pk!ChosenHome(t) = Pk!ModuleHome(t) THEN "stays-in-module" ELSE "moved-to-package")
       \o ":" \o (IF r.sc.own THEN "own-module" ELSE "via-" \o r.sc.via)
       \o (IF Len(r.sc.second) > 0 THEN ":second-re-exporter" ELSE "")
ImpSig(i) ==
  IF i.kind # "u3" THEN i.kind
  ELSE LET t == i.sc.t IN
       t.reexp.form \o (IF t.reexp.form \in {"alias", "modalias"} THEN (IF Pk!PrivateName(t.reexp.alias) THEN "-private-alias" ELSE "-public-alias") ELSE "")
       \o ":" \o (IF Pk!ChosenHome(t) = Pk!ModuleHome(t) THEN "stays-in-module" ELSE "moved-to-package")
       \o ":" \o (IF Pk!PrivateName(t.stem) THEN "private-module" ELSE "public-module") \o ":via-" \o i.sc.via
       \o (IF Len(i.sc.second) > 0 THEN ":second-re-exporter" ELSE "")
JudgeRun(obs) ==
  LET F == ToSet(obs.files)
      declaredIn(f) == ToSet(f.decls)
      importedIn(f) == { i.name : i \in ToSet(f.imports) }
      unresolved(f) == { r \in ToSet(f.refs) : ~r.tparam /\ r.name \notin Builtins /\ r.name \notin declaredIn(f) /\ r.name \notin importedIn(f) }
      samePkg(f, r) == \E g \in F : g.rel # f.rel /\ g.package = f.package /\ r.name \in ToSet(g.decls)
  IN UNION {
       { [property |-> "C11", clause |-> "Closed",
          sig |-> (IF samePkg(f, r) THEN "same-package-other-file:" ELSE "unresolved:") \o RefSig(r) \o (IF obs.nc THEN ":nc" ELSE ""),
          expected |-> "declared or imported in " \o f.rel, observed |-> r.name] : r \in unresolved(f) }
       \cup
       { [property |-> "C11", clause |-> "Resolves",
          sig |-> (IF \E g \in F : g.package = i.from THEN "name-not-declared-in-package:" ELSE "no-such-package:") \o ImpSig(i) \o (IF obs.nc THEN ":nc" ELSE ""),
          expected |-> "a stub with package " \o i.from \o " declaring " \o i.name, observed |-> f.rel]
         : i \in { i \in ToSet(f.imports) : ~\E g \in F : g.package = i.from /\ i.name \in ToSet(g.decls) } }
     : f \in F }
=============================================================================
