SPECIFICATION Spec
CONSTANT Tier = "quick"
INVARIANT Inv_C19_RoundTrip
INVARIANT Inv_C19_Stable
INVARIANT Inv_C19_Refl
INVARIANT Inv_C19_Sym
INVARIANT Inv_C19_EqHash
INVARIANT Inv_C19_OrderFree
INVARIANT Emit
CHECK_DEADLOCK FALSE
