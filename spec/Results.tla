------------------------------- MODULE Results -------------------------------
(***************************************************************************)
(* C07 - results mirror the return annotation, or soundly cover inferred   *)
(* returns.                                                                *)
(*                                                                         *)
(* A scenario is either an annotated function (return annotation term +    *)
(* docstring result entries) or an un-annotated one (a statement tree      *)
(* whose leaves are `return <literal>`).  The analyser is modelled as a    *)
(* small machine: Decide (annotation or inference) -> Name -> Emit.        *)
(***************************************************************************)
EXTENDS Naturals, Sequences, FiniteSets, TLC, Json

CONSTANTS Tier

P == INSTANCE PyTypes WITH Tier <- "quick", term <- 0, phase <- ""
Null == P!Null

(* ---------- statement trees ---------- *)
(* Leaves: what a return statement returns, as a sequence of literal types (a non-tuple occupies position 1).   *)
RetLeaves == << <<"int">>, <<"float">>, <<"str">>, <<"bool">>, <<"none">>, <<"int", "str">>, <<"int", "float", "none">>, <<"int">>, <<"str", "int">>, <<"none">>, <<"int", "int">> >>
NLeaf == Len(RetLeaves)      \* leaf 8 is `-1` (a unary expression); leaf 9 is leaf 6 with its positions swapped; leaf 10 is a bare `return`; leaf 11 has one type twice
Ret(v) == [k |-> "ret", v |-> v, b |-> <<>>]
Comp(k, bodies) == [k |-> k, v |-> 0, b |-> bodies]

ScopeKinds == {"nesteddef", "nestedclass", "lambda"}
RECURSIVE StmtLeaves(_)
StmtLeaves(s) ==
  IF s.k = "ret" THEN { s.v }
  ELSE IF s.k \in ScopeKinds THEN {}      \* the returns of a nested function, of a method of a local class and of a lambda are not the function's
  ELSE UNION { UNION { StmtLeaves(s.b[j][m]) : m \in 1..Len(s.b[j]) } : j \in 1..Len(s.b) }
BodyLeaves(body) == UNION { StmtLeaves(body[m]) : m \in 1..Len(body) }
ReturnValues(body) == { RetLeaves[v] : v \in BodyLeaves(body) }

B0(L) == { << Ret(v) >> : v \in L }
(* one compound statement, possibly followed by a fall-through return *)
Compounds(In, L) ==
  LET in == In IN
     { << Comp("if", <<a, b>>) >> : a \in in, b \in in }
  \cup { << Comp("if", <<a, b>>), Ret(v) >> : a \in in, b \in in, v \in L }        \* if/else followed by a fall-through return
  \cup { << Comp("ifonly", <<a>>), Ret(v) >> : a \in in, v \in L }
  \cup { << Comp("try", <<a, b>>) >> : a \in in, b \in in }
  \cup { << Comp("for", <<a>>), Ret(v) >> : a \in in, v \in L }
  \cup { << Comp("while", <<a>>), Ret(v) >> : a \in in, v \in L }
  \cup { << Comp("with", <<a>>) >> : a \in in }
  \cup { << Comp("match", <<a, b>>) >> : a \in in, b \in in }
(* the remaining clauses of compound statements that can hold a return: try/except/else, try/finally, for/else, while/else *)
ElseClauses(L) ==
  LET in == B0(L) IN
     { << Comp("tryelse", <<a, b, c>>) >> : a \in in, b \in in, c \in in }
  \cup { << Comp("tryfinally", <<a, b>>) >> : a \in in, b \in in }
  \cup { << Comp("forelse", <<a, b>>) >> : a \in in, b \in in }
  \cup { << Comp("whileelse", <<a, b>>) >> : a \in in, b \in in }
Conds(L) == { << Comp("cond", << <<Ret(a)>>, <<Ret(b)>> >>) >> : a \in L, b \in L }
            \cup { << Comp("cond3", << <<Ret(a)>>, <<Ret(b)>>, <<Ret(c)>> >>) >> : a \in L, b \in L, c \in L \cap {1, 3, 5} }   \* x if c else (y if d else z)
            \cup { << Comp("cond3l", << <<Ret(a)>>, <<Ret(b)>>, <<Ret(c)>> >>) >> : a \in L \cap {1, 3, 5}, b \in L, c \in L }  \* (x if c else y) if d else z
            \cup { << Comp("cond4", << <<Ret(a)>>, <<Ret(b)>>, <<Ret(c)>>, <<Ret(e)>> >>) >> : a \in L \cap {1, 5}, b \in L \cap {2, 3}, c \in L \cap {4, 5, 1}, e \in L \cap {3, 2, 6} }   \* both branches are conditional expressions
(* a scope of its own inside the body (nested def, local class with a method, lambda), alone or followed by a return of the function itself *)
Scopes(L, L2) == { << Comp(k, << <<Ret(a)>> >>) >> : k \in ScopeKinds, a \in L }
                 \cup { << Comp(k, << <<Ret(a)>> >>), Ret(v) >> : k \in ScopeKinds, a \in L, v \in L2 }
Elifs(L) == { << Comp("ifelif", << <<Ret(a)>>, <<Ret(b)>>, <<Ret(c)>> >>) >> : a \in L, b \in L, c \in L }

Bodies(tier) ==
  LET all == 1..NLeaf
      small == {1, 3, 5, 6, 7, 9}
      tiny == {1, 5, 6}
      exprs == all \ {10, 11}       \* a bare return has no expression to put into a conditional expression
  IN B0(all) \cup Compounds(B0(all \ {11}), small \cup {10}) \cup Conds(exprs) \cup Elifs(small)
     \cup ElseClauses(small) \cup Scopes({1, 3, 6}, {2, 5, 7})
     \cup { <<>> }                                                     \* no return statement at all
     \cup Compounds(Compounds(B0(tiny), {2}) \cup Conds(tiny), {7})    \* depth 2
     \cup (IF tier = "quick" THEN {} ELSE Compounds(Compounds(B0(tiny), small), tiny) \cup Elifs(exprs))

(* ---------- annotated functions ---------- *)
T0(k) == P!T0(k)
AnnTerms(tier) ==
  LET leaves == { T0("int"), T0("str"), T0("None"), T0("Loc"), P!TL(<< <<"str", "a">> >>) }
      one == leaves \cup { P!T1(c, x) : c \in {"list", "Optional", "set"}, x \in {T0("int"), T0("Loc")} }
                    \cup { P!T2("dict", T0("str"), T0("int")), P!T2("Union", T0("int"), T0("str")), P!T2("Or", T0("int"), T0("None")),
                           P!T2("Callable", T0("int"), T0("str")),
                           \* a tuple of variable length is one result; an alias means what it abbreviates (a tuple: one result per element)
                           P!T1("VarTuple", T0("int")), P!T1("Alias", P!T1("VarTuple", T0("int"))), P!T1("Alias", P!T2("tuple", T0("int"), T0("str"))),
                           P!T1("Alias", P!T1("list", T0("int"))), P!T1("Alias", T0("Loc")) }
      few == { T0("int"), T0("str"), T0("None"), P!T1("list", T0("int")), P!T1("Optional", T0("Loc")) }
  IN one \cup { P!T2("tuple", x, y) : x \in few, y \in few }
         \cup { P!T3("tuple", x, y, z) : x \in {T0("int"), T0("None")}, y \in few, z \in {T0("str"), T0("None")} }
         \cup (IF tier = "quick" THEN {} ELSE { P!T2("tuple", x, y) : x \in one, y \in one })

Styles == {"PLAINTEXT", "GOOGLE", "NUMPYDOC", "REST"}
DocShapes == \* (style, number of result entries, named?)
  { <<"PLAINTEXT", 0, FALSE>>, <<"GOOGLE", 0, FALSE>>, <<"GOOGLE", 1, FALSE>>, <<"REST", 0, FALSE>>, <<"REST", 1, FALSE>>,
    <<"NUMPYDOC", 0, FALSE>> } \cup { <<"NUMPYDOC", n, nm>> : n \in 1..3, nm \in BOOLEAN }

NoTerm == T0("None")
Universe(tier) ==
  \* A docstring that lists more results than the annotation admits is contradictory input (C07 says "exactly one
  \* result", C14 says "a type given by only one source is used"): not generated.
  { s \in { [mode |-> "ann", ret |-> t, style |-> d[1], ndoc |-> d[2], named |-> d[3], body |-> <<>>] : t \in AnnTerms(tier), d \in DocShapes }
      : s.ndoc <= Len(P!ExpectedResults(s.ret)) }
  \cup { [mode |-> "inf", ret |-> NoTerm, style |-> "PLAINTEXT", ndoc |-> 0, named |-> FALSE, body |-> b] : b \in Bodies(tier) }
  \* inferred results of a function whose docstring documents one result (the description must not change what is inferred)
  \cup { [mode |-> "inf", ret |-> NoTerm, style |-> d[1], ndoc |-> 1, named |-> d[3], body |-> b]
         : d \in { <<"GOOGLE", 1, FALSE>>, <<"REST", 1, FALSE>>, <<"NUMPYDOC", 1, FALSE>>, <<"NUMPYDOC", 1, TRUE>> },
           b \in B0(1..NLeaf) \cup Conds(IF tier = "quick" THEN {1, 3, 5, 6, 7, 9} ELSE 1..9) }
  \cup { [mode |-> "inf", ret |-> NoTerm, style |-> "NUMPYDOC", ndoc |-> 2, named |-> TRUE, body |-> b] : b \in B0({6, 11}) }
  \* the same inference when the parameters are annotated and only the return annotation is missing
  \cup { [mode |-> "infp", ret |-> NoTerm, style |-> "PLAINTEXT", ndoc |-> 0, named |-> FALSE, body |-> b]
         : b \in B0(1..NLeaf) \cup Compounds(B0({1, 3, 5, 6}), {1, 3, 7}) \cup Conds({1, 3, 5, 6}) }
  \* no return statement at all, results known from the docstring only: they are named like any other unnamed result
  \cup { [mode |-> "inf", ret |-> NoTerm, style |-> d[1], ndoc |-> d[2], named |-> FALSE, body |-> <<>>]
         : d \in { <<"GOOGLE", 1, FALSE>>, <<"REST", 1, FALSE>>, <<"NUMPYDOC", 1, FALSE>>, <<"NUMPYDOC", 2, FALSE>>, <<"NUMPYDOC", 3, FALSE>> } }

(* ---------- what the statement determines ---------- *)
DocNames == <<"alpha", "beta", "gamma">>
ResultTypes(sc) == P!ExpectedResults(sc.ret)                       \* annotated: one meaning per result, in order
ResultCount(sc) == Len(ResultTypes(sc))
DefaultName(i) == "result_" \o ToString(i)
(* names: "*" = not determined by the statement (entry count differs from result count) *)
ResultNames(sc) ==
  [ i \in 1..ResultCount(sc) |->
      IF sc.style = "NUMPYDOC" /\ sc.named /\ sc.ndoc > 0
      THEN (IF sc.ndoc = ResultCount(sc) THEN DocNames[i] ELSE "*")
      ELSE DefaultName(i) ]

LitAtom(ty) ==
  CASE ty = "int" -> P!Atom("Builtin", "Int", <<>>) [] ty = "float" -> P!Atom("Builtin", "Float", <<>>)
    [] ty = "str" -> P!Atom("Builtin", "String", <<>>) [] ty = "bool" -> P!Atom("Builtin", "Boolean", <<>>)
    [] ty = "none" -> Null

(* ---------- the machine ---------- *)
VARIABLES sc, pc, types, names
vars == <<sc, pc, types, names>>
Init == sc \in Universe(Tier) /\ pc = "decide" /\ types = <<>> /\ names = <<>>

(* Inference groups the returned values by position; a position is the set of literal types seen there, plus   *)
(* Null when some return is too short to reach it.                                                             *)
MaxLen(vals) == IF vals = {} THEN 0 ELSE CHOOSE n \in { Len(v) : v \in vals } : \A v \in vals : Len(v) <= n
InferredTypes(vals) ==
  [ i \in 1..MaxLen(vals) |-> { LitAtom(v[i]) : v \in { v \in vals : Len(v) >= i } }
                               \cup (IF \E v \in vals : Len(v) < i THEN { Null } ELSE {}) ]
OnlyNone(vals) == vals \subseteq { <<"none">> }

Decide ==
  /\ pc = "decide"
  /\ types' = IF sc.mode = "ann" THEN ResultTypes(sc)
              ELSE IF OnlyNone(ReturnValues(sc.body)) THEN <<>> ELSE InferredTypes(ReturnValues(sc.body))
  /\ pc' = "name" /\ UNCHANGED <<sc, names>>
Name ==
  /\ pc = "name"
  /\ names' = IF sc.mode = "ann" THEN ResultNames(sc) ELSE [ i \in 1..Len(types) |-> DefaultName(i) ]
  /\ pc' = "done" /\ UNCHANGED <<sc, types>>
Next == Decide \/ Name
Spec == Init /\ [][Next]_vars /\ WF_vars(Next)

Covers(ts, vals) ==    \* every returned literal is covered at its position
  \A v \in vals : \A i \in 1..Len(v) : i <= Len(ts) /\ LitAtom(v[i]) \in ts[i]
Inv_C07_NoneHasNoResults == (pc = "done" /\ sc.mode = "ann" /\ sc.ret.k = "None") => types = <<>>
Inv_C07_TupleSplits == (pc = "done" /\ sc.mode = "ann" /\ P!Unalias(sc.ret).k = "tuple") => Len(types) = Len(P!Unalias(sc.ret).a)
Inv_C07_OtherIsOne == (pc = "done" /\ sc.mode = "ann" /\ P!Unalias(sc.ret).k \notin {"None", "tuple"} /\ P!Canon(sc.ret) # {Null}) => Len(types) = 1
Inv_C07_Cover == (pc = "done" /\ sc.mode = "inf" /\ ~OnlyNone(ReturnValues(sc.body))) => Covers(types, ReturnValues(sc.body))
Inv_C07_NoReturnNoResult == (pc = "done" /\ sc.mode = "inf" /\ ReturnValues(sc.body) = {}) => types = <<>>
Inv_C07_NamesDistinct == pc = "done" => \A i, j \in 1..Len(names) : (i # j /\ names[i] # "*") => names[i] # names[j]
Live_Done == <>(pc = "done")
Emit == pc = "done" => PrintT(ToJson(sc))

(* ---------- judging a real run: obs = [missing, res: Seq [name, ty]] ---------- *)
ObsTypes(obs) == [ i \in 1..Len(obs.res) |-> P!ObsCanon(obs.res[i].ty) ]
ObsNames(obs) == [ i \in 1..Len(obs.res) |-> obs.res[i].name ]

JudgeDistinct(s, obs) ==
  LET on == ObsNames(obs) IN
  IF \E i, j \in 1..Len(on) : i < j /\ on[i] = on[j]
  THEN { [property |-> "C07", clause |-> "Names",
          sig |-> "names:duplicate:" \o s.mode \o ":" \o s.style \o ":" \o (IF s.named THEN "named" ELSE "unnamed") \o ":" \o ToString(s.ndoc) \o "of" \o ToString(Len(on)),
          expected |-> "pairwise distinct result names", observed |-> ToString(on)] }
  ELSE {}
Judge(s, obs) ==
  (IF obs.missing THEN {} ELSE JudgeDistinct(s, obs)) \cup
  IF obs.missing THEN { [property |-> "C07", clause |-> "Results", sig |-> s.mode \o ":declaration-missing", expected |-> "declared", observed |-> "absent"] }
  ELSE IF s.mode = "ann" THEN
    LET et == ResultTypes(s)
        en == ResultNames(s)
        ot0 == ObsTypes(obs)
        \* other spellings of "returns nothing" than the literal None may be shown as one Nothing? result (see PyTypes)
        ot == IF s.ret.k # "None" /\ P!Canon(s.ret) = {Null} /\ ot0 = << {Null} >> THEN <<>> ELSE ot0
        on == ObsNames(obs)
    IN (IF ot # et
        THEN { [property |-> "C07", clause |-> "Results",
                sig |-> "ann:" \o s.ret.k \o (IF Len(ot) # Len(et) THEN ":count" ELSE ":type"),
                expected |-> ToString(et), observed |-> ToString(ot)] }
        ELSE {})
       \cup
       (IF Len(on) = Len(en) /\ \E i \in 1..Len(en) : en[i] # "*" /\ en[i] # on[i]
        THEN { [property |-> "C07", clause |-> "Names",
                sig |-> "names:" \o s.style \o ":" \o (IF s.named THEN "named" ELSE "unnamed") \o ":" \o ToString(s.ndoc) \o "of" \o ToString(Len(en)),
                expected |-> ToString(en), observed |-> ToString(on)] }
        ELSE {})
  ELSE
    LET vals == ReturnValues(s.body)
        ot == ObsTypes(obs)
        kinds == { s.body[m].k : m \in 1..Len(s.body) }
        on == ObsNames(obs)
    IN IF vals = {} /\ s.ndoc > 0
       THEN { [property |-> "C07", clause |-> "Names", sig |-> "names:documented-only:" \o s.style \o ":" \o ToString(s.ndoc), expected |-> ToString([ i \in 1..Len(on) |-> DefaultName(i) ]),
                observed |-> ToString(on)] : x \in { 1 } \cap { IF on = [ i \in 1..Len(on) |-> DefaultName(i) ] THEN 0 ELSE 1 } }
       ELSE IF vals = {}
       THEN (IF ot = <<>> THEN {} ELSE { [property |-> "C07", clause |-> "NoReturnNoResult", sig |-> "inf:no-return", expected |-> "<<>>", observed |-> ToString(ot)] })
       ELSE IF OnlyNone(vals) THEN {}
       ELSE IF Covers(ot, vals) THEN {}
       ELSE { [property |-> "C07", clause |-> "Cover",
               sig |-> "inf:" \o (IF Len(ot) < MaxLen(vals) THEN "position-missing" ELSE "type-not-covered")
                       \o ":" \o (IF "ret" \in kinds /\ Cardinality(kinds) = 1 THEN "plain" ELSE CHOOSE k \in kinds \ {"ret"} : TRUE),
               expected |-> ToString(InferredTypes(vals)), observed |-> ToString(ot)] }
=============================================================================
