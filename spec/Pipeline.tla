------------------------------ MODULE Pipeline ------------------------------
(***************************************************************************)
(* C01 - every analysable package is processed to completion under every   *)
(* option set.                                                             *)
(*                                                                         *)
(* The run as a program counter machine: discover -> build -> aliases ->   *)
(* walk (one step per declaration form present) -> json -> generate ->     *)
(* write -> done, or -> rejected when discovery finds nothing.  Every      *)
(* dispatch the implementation performs on a syntactic kind is a function  *)
(* here whose totality over the kinds of the universe is an invariant:     *)
(* an unexpected kind must fall into a harmless default, never into an     *)
(* internal error.                                                         *)
(***************************************************************************)
EXTENDS Naturals, Sequences, FiniteSets, TLC, Json

CONSTANTS Tier

ParamKinds == {"posonly", "pos", "vararg", "kwonly", "kwarg"}
ReturnExprs == {"int", "float", "str", "bool", "none", "name", "tuple", "unary", "call", "member", "conditional", "binop", "list", "dict", "set",
                "compare", "index", "lambda", "listcomp", "fstring", "bytes", "complex", "ellipsis", "await", "boolop", "walrus", "starred-tuple", "self", "yield"}
Initializers == {"double-sign", "sign-of-signed-float", "plus-minus", "neg-bool", "invert", "neg-str", "huge-float", "int", "float", "str", "bool", "none", "name", "call", "neg-int", "not-bool", "neg-name", "empty-tuple", "tuple", "list", "dict", "binop",
                 "member", "lambda", "bytes", "complex", "ellipsis", "set", "index", "conditional", "fstring"}
ClassForms == {"names-with-double-underscore", "generic-paramspec", "generic-typevartuple", "recursive-alias", "recursive-namedtuple", "plain", "nested", "property", "property-setter", "overload", "overload-module", "staticmethod", "classmethod", "abstract", "dataclass", "exception",
               "enum", "intenum", "enum-empty", "nested-enum", "generic", "generic-bound", "generic-constraints", "generic-variance", "protocol", "namedtuple",
               "class-attr-forms", "slots", "init-tuple-unpack", "multiple-inheritance", "private-base", "metaclass", "inner-function", "global-assign", "async-def", "decorated",
               "subscript-assign", "starred-assign", "private-foreign-base", "foreign-base-with-private-ancestors", "generic-named-like-builtin", "strenum-flag",
               "attribute-docstrings", "redefinition", "init-conditional-attrs",
               "subscripted-typing-base", "namespace-base", "enum-subscript-assign", "enum-nested-tuple-target", "variable-as-annotation",
               "enum-via-module-with-methods", "nested-subscript-typing-base", "protocol-overloads-only", "self-typevar-inferred", "code-after-module-raise"}
Reexports == {"name", "alias", "star", "module", "modalias", "absolute-name", "all-list", "type-checking-import",
              "modalias-and-star", "name-and-alias-of-one-declaration"}       \* one module / declaration re-exported twice by the same __init__
Foreign == {"one-segment", "two-segment", "three-segment", "generic", "as-superclass", "typing-special"}
ModuleCode == {"module-level-function-named-init", "member-func-call", "member-class-use", "member-const", "type-alias", "typevar-expr", "local-import", "try-import", "conditional-def", "main-guard"}
Docs == {"PLAINTEXT", "GOOGLE", "NUMPYDOC", "REST", "malformed-numpy", "malformed-google", "malformed-rest", "unicode", "raw-backslash",
         "odd-types-numpy", "odd-types-google", "odd-types-rest",
         "member-named-like-module-numpy", "member-named-like-module-google", "member-named-like-module-rest",    \* gadget.py defines gadget() and Gadget.gadget()
         "overload-only-in-package-file-numpy", "overload-only-in-package-file-google", "overload-only-in-package-file-rest",   \* @overload items without implementation in pkg/__init__.py
         "package-file-declarations-named-like-submodules-numpy",   \* pkg/__init__.py defines helper() and class widget next to pkg/helper.py and pkg/widget.py
         "module-named-like-package-numpy"}                                                                       \* pkg/pkg.py        \* docstring type expressions that are not plain names

Features ==
  { <<"param", k>> : k \in ParamKinds } \cup { <<"return", k>> : k \in ReturnExprs } \cup { <<"init", k>> : k \in Initializers }
  \cup { <<"class", k>> : k \in ClassForms } \cup { <<"reexport", k>> : k \in Reexports } \cup { <<"foreign", k>> : k \in Foreign }
  \cup { <<"modcode", k>> : k \in ModuleCode } \cup { <<"doc", k>> : k \in Docs }

(* the dispatch tables of the promised design: every kind has an outcome *)
ReturnExprOutcome(k) == CASE k \in {"int", "float", "str", "bool", "none", "unary"} -> "literal-type" [] k = "tuple" -> "tuple-type"
                          [] k = "self" -> "own-class" [] k = "conditional" -> "both-branches" [] OTHER -> "no-information"
InitializerOutcome(k) == CASE k \in {"int", "float", "str", "bool", "none", "neg-int"} -> "literal-default" [] k \in {"not-bool", "neg-name"} -> "unknown-value"
                           [] k = "call" -> "warn-no-default" [] OTHER -> "no-default"
ForeignOutcome(k) == IF k = "one-segment" THEN "no-placeholder" ELSE "placeholder-stub"     \* a bare name has no module to put a placeholder in

Pairs(S) == { p \in SUBSET S : Cardinality(p) \in 1..2 }
Options == [docstyle : {"PLAINTEXT", "GOOGLE", "NUMPYDOC", "REST"}, nc : BOOLEAN, tr : BOOLEAN, tsp : {"CODE", "DOCSTRING"}, tsw : {"WARN", "IGNORE"}]

VARIABLES feats, opts, pc, todo
vars == <<feats, opts, pc, todo>>
Init == feats \in ({ {f} : f \in Features } \cup { {} }) /\ opts \in Options /\ pc = "discover" /\ todo = feats
Discover == pc = "discover" /\ pc' = (IF feats = {} THEN "rejected" ELSE "build") /\ UNCHANGED <<feats, opts, todo>>
Build == pc = "build" /\ pc' = "aliases" /\ UNCHANGED <<feats, opts, todo>>
Aliases == pc = "aliases" /\ pc' = "walk" /\ UNCHANGED <<feats, opts, todo>>
Walk(f) == /\ pc = "walk" /\ f \in todo
           /\ (f[1] = "return" => ReturnExprOutcome(f[2]) \in {"literal-type", "tuple-type", "own-class", "both-branches", "no-information"})
           /\ (f[1] = "init" => InitializerOutcome(f[2]) \in {"literal-default", "unknown-value", "warn-no-default", "no-default"})
           /\ todo' = todo \ {f} /\ UNCHANGED <<feats, opts, pc>>
WalkDone == pc = "walk" /\ todo = {} /\ pc' = "json" /\ UNCHANGED <<feats, opts, todo>>
Json == pc = "json" /\ pc' = "generate" /\ UNCHANGED <<feats, opts, todo>>
Generate == pc = "generate" /\ pc' = "write" /\ UNCHANGED <<feats, opts, todo>>
Write == pc = "write" /\ pc' = "done" /\ UNCHANGED <<feats, opts, todo>>
Next == Discover \/ Build \/ Aliases \/ (\E f \in Features : Walk(f)) \/ WalkDone \/ Json \/ Generate \/ Write
Spec == Init /\ [][Next]_vars /\ WF_vars(Next)

Inv_C01_NoCrash == pc # "crashed"
Inv_C01_Outcome == (pc = "rejected") <=> (feats = {} /\ pc \notin {"discover"})
Inv_C01_TotalReturn == \A k \in ReturnExprs : ReturnExprOutcome(k) # ""
Inv_C01_TotalInit == \A k \in Initializers : InitializerOutcome(k) # ""
Live_C01 == <>(pc \in {"done", "rejected"})
EmitFeatures == (pc = "done" /\ opts = CHOOSE o \in Options : TRUE) => PrintT(ToJson([f |-> CHOOSE x \in feats : TRUE]))

(***************************************************************************)
(* Judging real runs.  obs = [exit, exc, frame, msg, feature: Seq, opts, hasApi, nStubs, expectEmpty, timeout]     *)
(***************************************************************************)
JudgeRun(obs) ==
  LET feat == IF Len(obs.feature) = 0 THEN "pack" ELSE obs.feature[1] \o ":" \o obs.feature[2] IN
  IF obs.exit = "ok"
  THEN (IF obs.hasApi /\ (obs.nStubs > 0 \/ ~obs.needStubs) THEN {}
        ELSE { [property |-> "C01", clause |-> "Outcome", sig |-> "completed-without-output:" \o feat, expected |-> "API file and stubs", observed |-> ToString(<<obs.hasApi, obs.nStubs>>)] })
  ELSE IF obs.exit = "rejected"
  THEN (IF obs.expectEmpty THEN {} ELSE { [property |-> "C01", clause |-> "Outcome", sig |-> "rejected-nonempty-input:" \o feat, expected |-> "completed", observed |-> "No files found to analyse"] })
  ELSE IF obs.exit = "notloadable" THEN {}                \* the type checker cannot load the package: outside the quantifier
  ELSE IF obs.exit = "timeout"
  THEN { [property |-> "C01", clause |-> "Terminates", sig |-> "timeout:" \o feat, expected |-> "terminates", observed |-> "timeout"] }
  ELSE { [property |-> "C01", clause |-> "NoCrash", sig |-> obs.exc \o ":" \o obs.frame \o ":" \o feat, expected |-> "ok or rejected", observed |-> obs.exc \o ": " \o obs.msg] }
=============================================================================
