------------------------------ MODULE C19_Trace ------------------------------
(* Trace validation for C19: the laws evaluated on what the real type classes returned. *)
EXTENDS Naturals, Sequences, TLC, Json, IOUtils
A == INSTANCE ApiTypes WITH Tier <- "quick", pair <- <<>>, phase <- ""
Obs == JsonDeserialize(IOEnv.OBS_FILE)
VARIABLES n, bad
TInit == n = 0 /\ bad = {}
TNext == /\ n < Len(Obs)
         /\ n' = n + 1
         /\ bad' = A!Judge(Obs[n + 1].sc, Obs[n + 1].obs)
TSpec == TInit /\ [][TNext]_<<n, bad>>
Report == bad = {} \/ PrintT(ToJson([id |-> Obs[n].id, bad |-> bad]))
AllConsumed == TLCGet("stats").diameter - 1 = Len(Obs)
=============================================================================
