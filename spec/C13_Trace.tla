------------------------------ MODULE C13_Trace ------------------------------
(* Trace validation for C13: replays of lookup sequences on the real DocstringParser, and documentation comments of real stubs. *)
EXTENDS Naturals, Sequences, TLC, Json, IOUtils
D == INSTANCE DocCache WITH MaxLen <- 0, key <- "", doc <- "", hist <- <<>>, answerFrom <- <<>>
A == INSTANCE DocAttach WITH order <- <<>>, i <- 0, comments <- {}
Obs == JsonDeserialize(IOEnv.OBS_FILE)
VARIABLES n, bad
TInit == n = 0 /\ bad = {}
TNext == /\ n < Len(Obs)
         /\ n' = n + 1
         /\ bad' = CASE Obs[n + 1].kind = "replay" -> D!Judge(Obs[n + 1].obs)
                     [] Obs[n + 1].kind = "module" -> A!Judge(Obs[n + 1].obs)
                     [] Obs[n + 1].kind = "style" -> A!JudgeStyle(Obs[n + 1].obs)
                     [] Obs[n + 1].kind = "pkgfile" -> A!JudgePkgFile(Obs[n + 1].obs)
                     [] Obs[n + 1].kind = "cache" -> D!JudgeCache(Obs[n + 1].obs)
TSpec == TInit /\ [][TNext]_<<n, bad>>
Report == bad = {} \/ PrintT(ToJson([id |-> Obs[n].id, bad |-> bad]))
AllConsumed == TLCGet("stats").diameter - 1 = Len(Obs)
=============================================================================
