------------------------------ MODULE C09_Trace ------------------------------
(* Trace validation for C09: results of the real conversion function and names of emitted declarations under both settings. *)
EXTENDS Naturals, Sequences, TLC, Json, IOUtils
I == INSTANCE Ident WITH Alphabet <- "a", MaxLen <- 0, name <- "", cls <- FALSE, i <- 0, out <- "", capNext <- FALSE, seenPart <- FALSE, pc <- ""
Obs == JsonDeserialize(IOEnv.OBS_FILE)
VARIABLES n, bad
TInit == n = 0 /\ bad = {}
TNext == /\ n < Len(Obs)
         /\ n' = n + 1
         /\ bad' = CASE Obs[n + 1].kind = "fn" -> I!JudgeFn(Obs[n + 1].name, Obs[n + 1].obs)
                     [] Obs[n + 1].kind = "decl" -> I!JudgeDecl(Obs[n + 1].obs)
                     [] Obs[n + 1].kind = "skel" -> I!JudgeSkeleton(Obs[n + 1].obs)
TSpec == TInit /\ [][TNext]_<<n, bad>>
Report == bad = {} \/ PrintT(ToJson([id |-> Obs[n].id, bad |-> bad]))
AllConsumed == TLCGet("stats").diameter - 1 = Len(Obs)
=============================================================================
