SPECIFICATION Spec
CONSTANT Tier = "quick"
INVARIANT Inv_C03_ExactlyOnce
INVARIANT Inv_C03_Home
INVARIANT Inv_C04_NoLeak
INVARIANT Inv_C04_PrivateNeverPublic
INVARIANT Inv_C04_ReexportNeeded
INVARIANT Emit
PROPERTY Live_Done
CHECK_DEADLOCK FALSE
