------------------------------- MODULE Layout -------------------------------
(***************************************************************************)
(* C10 - stub files are laid out by module path inside the output          *)
(* directory.                                                              *)
(*                                                                         *)
(* The generator produces virtual files (directory segments, base name,    *)
(* announced Python module, text); create_stub_files writes each with mode *)
(* "w"; placeholder stubs for classes of other libraries are created with  *)
(* "w" the first time their module is seen and appended ("a") afterwards.  *)
(* The machine writes the virtual files of a U1 scenario (Package.tla)     *)
(* plus k foreign classes spread over m foreign modules, in any order.     *)
(***************************************************************************)
EXTENDS Naturals, Sequences, FiniteSets, TLC, Json

CONSTANTS Tier
Pk == INSTANCE Package WITH sc <- 0, pc <- "", pub <- {}, occ <- {}
I == INSTANCE Ident WITH Alphabet <- "a", MaxLen <- 0, name <- "", cls <- FALSE, i <- 0, out <- "", capNext <- FALSE, seenPart <- FALSE, pc <- ""

RECURSIVE StripLead(_)
StripLead(n) == IF Len(n) > 0 /\ I!Ch(n, 1) = "_" THEN StripLead(SubSeq(n, 2, Len(n))) ELSE n

(* virtual files of a U1 scenario: the module stub (if something public stays there) or the re-export stub *)
VFile(dir, base, kind) == [dir |-> dir, base |-> base, kind |-> kind]
VFiles(s) ==
  IF Pk!PublicRoles(s) = {} THEN {}
  ELSE IF Pk!ChosenHome(s) = Pk!ModuleHome(s)
       THEN { VFile(Pk!ModuleHome(s), StripLead(s.stem), "module") }
       ELSE IF s.reexp.form \in {"module", "modalias"}
            THEN { VFile(Pk!ReexpHome(s), StripLead(IF s.reexp.form = "modalias" THEN s.reexp.alias ELSE s.stem), "module-reexport") }
            ELSE { VFile(Pk!ReexpHome(s), StripLead(IF s.reexp.form = "alias" THEN s.reexp.alias ELSE s.dname), "declaration-reexport") }
(* foreign classes: <<module segments, class name>> *)
Foreign == { << <<"pathlib">>, "Path" >>, << <<"pathlib">>, "PurePath" >>, << <<"collections", "abc">>, "Sized" >>, << <<"decimal">>, "Decimal" >> }
ForeignSets(tier) == IF tier = "quick" THEN { {}, { << <<"pathlib">>, "Path" >> }, Foreign } ELSE SUBSET Foreign

VARIABLES sc, fset, todoV, todoF, fs, created, pc
vars == <<sc, fset, todoV, todoF, fs, created, pc>>
PathOf(dir, base) == <<dir, base>>
Init == /\ sc \in Pk!Universe(Tier) /\ fset \in ForeignSets(Tier)
        /\ todoV = VFiles(sc) /\ todoF = fset /\ fs = << >> /\ created = {} /\ pc = "stubs"
(* fs is a sequence of write events <<path, mode, what>> (the trace of the run); the final tree is derived from it *)
WriteStub(v) ==
  /\ pc = "stubs" /\ v \in todoV
  /\ fs' = Append(fs, << PathOf(v.dir, v.base), "w", v.kind >>)
  /\ todoV' = todoV \ {v} /\ UNCHANGED <<sc, fset, todoF, created, pc>>
StubsDone == pc = "stubs" /\ todoV = {} /\ pc' = "foreign" /\ UNCHANGED <<sc, fset, todoV, todoF, fs, created>>
WriteForeign(c) ==     \* classes are written in sorted order; any order is explored here
  /\ pc = "foreign" /\ c \in todoF
  /\ fs' = Append(fs, << PathOf(c[1], c[1][Len(c[1])]), IF c[1] \in created THEN "a" ELSE "w", c[2] >>)
  /\ created' = created \cup { c[1] }
  /\ todoF' = todoF \ {c} /\ UNCHANGED <<sc, fset, todoV, pc>>
Done == pc = "foreign" /\ todoF = {} /\ pc' = "done" /\ UNCHANGED <<sc, fset, todoV, todoF, fs, created>>
Next == (\E v \in VFiles(sc) : WriteStub(v)) \/ StubsDone \/ (\E c \in Foreign : WriteForeign(c)) \/ Done
Spec == Init /\ [][Next]_vars /\ WF_vars(Next)

Paths == { fs[j][1] : j \in 1..Len(fs) }
(* two different texts are never written to the same path: a path is written once with "w"; later writes append *)
Inv_C10_NoClobber == \A j, k \in 1..Len(fs) : (j < k /\ fs[j][1] = fs[k][1]) => fs[k][2] = "a"
Inv_C10_FirstIsCreate == \A k \in 1..Len(fs) : (\A j \in 1..(k - 1) : fs[j][1] # fs[k][1]) => fs[k][2] = "w"
Inv_C10_StubVsForeign == \A j, k \in 1..Len(fs) : (fs[j][3] \in {"module", "module-reexport", "declaration-reexport"} /\ j # k) => fs[j][1] # fs[k][1]
Inv_C10_AllWritten == pc = "done" => Cardinality(Paths) = Cardinality(VFiles(sc)) + Cardinality({ c[1] : c \in fset })
Live_Done == <>(pc = "done")

(***************************************************************************)
(* Judging a real run.  One observation per run:                           *)
(* obs = [out, srcname, writes: Seq [path, mode, digest, rel: Seq segs, isstub, isapi, pymodule: Seq segs, base, tops: Seq names]] *)
(* `rel` = path segments below the output directory ("@outside" first if the path is not inside it).                              *)
(***************************************************************************)
ToSet(seq) == { seq[j] : j \in 1..Len(seq) }
JudgeRun(obs) ==
  LET W == obs.writes
      idx == 1..Len(W)
      stubs == { j \in idx : W[j].isstub }
      dirOf(j) == SubSeq(W[j].rel, 1, Len(W[j].rel) - 1)
      bases(j) == { StripLead(W[j].pymodule[Len(W[j].pymodule)]) } \cup { StripLead(n) : n \in ToSet(W[j].tops) }
                  \cup { StripLead(n) : n \in ToSet(W[j].aliases) }
  IN
     { [property |-> "C10", clause |-> "Inside", sig |-> "outside-output-directory", expected |-> obs.out, observed |-> W[j].path]
         : j \in { j \in idx : (W[j].isstub \/ W[j].isapi) /\ Len(W[j].rel) > 0 /\ W[j].rel[1] = "@outside" } }     \* stub files and the inventory (a scratch file elsewhere is neither)
  \cup { [property |-> "C10", clause |-> "Spells", sig |-> "directory:" \o W[j].kind, expected |-> ToString(W[j].pymodule), observed |-> ToString(dirOf(j))]
         : j \in { j \in stubs : W[j].parsed /\ dirOf(j) # W[j].pymodule } }
  \cup { [property |-> "C10", clause |-> "Base", sig |-> "basename:" \o W[j].kind, expected |-> ToString(bases(j)), observed |-> W[j].base]
         : j \in { j \in stubs : W[j].parsed /\ W[j].base \notin bases(j) } }
  \cup { [property |-> "C10", clause |-> "NoClobber", sig |-> "overwritten:" \o W[k].kind \o "-over-" \o W[j].kind \o (IF W[k].shape = "" THEN "" ELSE ":" \o W[k].shape), expected |-> W[j].digest, observed |-> W[k].digest]
         : <<j, k>> \in { p \in idx \X idx : p[1] < p[2] /\ W[p[1]].path = W[p[2]].path /\ W[p[2]].mode # "a" /\ W[p[1]].digest # W[p[2]].digest } }
  \cup { [property |-> "C10", clause |-> "NoClobber", sig |-> "first-write-appends:" \o W[j].kind, expected |-> "w", observed |-> W[j].mode \o " " \o W[j].path]
         : j \in { j \in idx : W[j].isstub /\ W[j].mode = "a" /\ \A k \in 1..(j - 1) : W[k].path # W[j].path } }
  \cup (IF \E j \in idx : W[j].isapi /\ W[j].rel = << obs.srcname \o "__api.json" >> THEN {}
        ELSE { [property |-> "C10", clause |-> "ApiName", sig |-> "api-file-name", expected |-> obs.srcname \o "__api.json", observed |-> ToString({ W[j].rel : j \in { j \in idx : W[j].isapi } })] })
=============================================================================
