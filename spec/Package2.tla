------------------------------- MODULE Package2 -------------------------------
(***************************************************************************)
(* Universe U2 of C03/C10: two public declarations and several re-exports  *)
(* that interact.  Declaration d1 lives in <root>/sub/deep/moda, d2 in     *)
(* <root>/sub/modb.  An export is [at, tgt, alias]: the __init__ of the    *)
(* package with `at` path segments (0 = root, 1 = sub, 2 = sub/deep; and   *)
(* 3 = the sibling package <root>/other) imports declaration `tgt` by      *)
(* name, optionally under an alias.  Python semantics decide what a        *)
(* package exposes: a later binding of the same name replaces an earlier   *)
(* one.                                                                    *)
(***************************************************************************)
EXTENDS Naturals, Sequences, FiniteSets, TLC, Json

Ats == 0..3
PkgPath(at) == CASE at = 0 -> <<>> [] at = 1 -> <<"sub">> [] at = 2 -> <<"sub", "deep">> [] at = 3 -> <<"other">>
ModHome(t) == IF t = 1 THEN <<"sub", "deep", "moda">> ELSE <<"sub", "modb">>
DName(t) == IF t = 1 THEN "declone" ELSE "decltwo"
Kinds == {"function", "class"}
Exp(at, tgt, alias) == [at |-> at, tgt |-> tgt, alias |-> alias]
Aliases == {"", "AliasA", "AliasB"}
ExportSeqs ==
  { << Exp(a, 1, x) >> : a \in Ats, x \in {"", "AliasA"} }
  \cup { << Exp(a, 1, ""), Exp(b, 1, "") >> : a \in Ats, b \in Ats }                         \* one declaration at two depths / in two sibling packages
  \cup { << Exp(a, 1, x), Exp(a, 2, y) >> : a \in {0, 1, 3}, x \in {"AliasA", "AliasB", ""}, y \in {"AliasA", ""} }   \* two declarations into one package, possibly under one alias
  \cup { << Exp(a, 1, "AliasA"), Exp(b, 1, "AliasB") >> : a \in {0, 1}, b \in {0, 3} }
(* variants: "distinct" - two differently named public declarations in public modules;
   "samename" - the two (private) modules declare the SAME name and only declaration 1 is re-exported;
   "suffix"   - declaration 2 is private and its name (_tail) is a suffix of declaration 1's name (public_tail), which is re-exported.
   "samemodule" - two public modules with the SAME module name in different packages (sub/deep/m and sub/m); module 1 is re-exported as a
                  whole module ('from <root>.sub.deep import m') by one package.
   "samemoduleboth" - like "samemodule", but one package re-exports both same-named modules as a whole, each under an alias of its own
                  ('from <root>.sub.deep import m as AliasA', 'from <root>.sub import m as AliasB').
   "initdecl"  - declaration 1 is written directly into the package file sub/deep/__init__.py (no re-export): it belongs to the stub of that package.
   "sharedbase" - both classes live in sub/deep/moda and derive from one private class that has a public method m_shared; class 2 overrides it,
                  class 1 does not: each class shows m_shared exactly once.
   "suffixalias" - like "distinct", but declaration 1's name is a suffix of declaration 2's (tail / big_tail); both are imported by one package,
                  declaration 2 under an alias: the alias belongs to declaration 2 only.
   "stdlibname" - module 2 is called like a module of the standard library (sub/logging.py) and some package __init__ does 'import logging'
                  (export target 0 = that standard-library module): nothing of the package is re-exported.
   "exccls"     - class 1 derives from Exception.
   "privtwin" / "privtwindeep" - module 2 has the same name as the public module 1 but lives in a private package (_hid/m, above module 1 in the
                  tree, or sub/deep/_hid/m, below it): declaration 2 is not public.
   "privtwinlate" - the same with the private package in a place that sorts after the public module (sub/zz/_hid/m).
   "newtype"    - module 1 also defines a NewType that module 2 uses as a parameter type (a name of the package that is no analysed class).
   "pkgmodreexp" - declaration 1 is written into the package file sub/deep/__init__.py, declaration 2 into sub/__init__.py, which also
                  re-exports the package deep as a module  ('from . import deep').
   "samenameboth" - like "samename", but one package imports both: declaration 1 by its name and declaration 2 under an alias (either order);
                  the alias belongs to declaration 2 only (reported as declone / decltwo).
   "privpkginit" - declaration 1 is written into the package file of a private sub-package (sub/_2d/__init__.py; the directory name sorts
                  before "__init__.py") and is re-exported by its parent package, by the root or by the sibling package.
   "privpkgtop" - the same with the private package beside the re-exporting packages (<root>/_2d next to <root>/sub and <root>/other).
   "bareimport" - both declarations live in private modules; the package files of their packages contain plain imports of top-level modules
                  that are called like the declarations (import declone / import decltwo as x) and a plain dotted import of module 2
                  (import <root>.sub._modb): none of these re-exports a declaration, both stay private.
   "pkgnamed"   - the package sub/deep is itself called like declaration 1 (reported as "deep"), which it re-exports from its private module
                  _moda; declaration 2 is written into the package file of that package.
   "privalias" - both modules are private; the top package imports declaration 1 under a private alias (`from ... import X as _HidA`), which
                 is no public re-export: the declaration is public only through the other package that re-exports it by name (if any)
   "conddecl" - declaration 1 stands under a module-level `if sys.version_info >= (3, 8):`, declaration 2 in the body of a module-level
                `try:`; both are declarations of their modules like any other
   "redefclass" - class 1 is defined twice in its module (the later definition is the class); both definitions declare the class attribute
                  `retries` and assign `self.verbose` in the constructor, the later one also declares `level`: each exactly once
   "genericattr" - class 1 is generic; its class attribute `content` and its constructor-assigned attribute `item` are typed by the type variable
                  (and `plain` by int): attributes are declarations like any other.
   "privreexp"  - like "distinct", but the sibling package (at = 3) is a private one (<root>/_other; reported as "other"): a public declaration
                  that only a private package re-exports is still emitted once, in its module's stub or in that package's. *)
Variants == {"conddecl", "privalias", "privtwinlate", "samemoduleboth", "bareimport", "privpkgtop", "privpkginit", "pkgnamed", "samenameboth", "genericattr", "redefclass", "conddecl", "privreexp", "distinct", "samename", "suffix", "samemodule", "initdecl", "sharedbase", "suffixalias", "stdlibname", "exccls", "pkgmodreexp", "privtwin", "privtwindeep", "newtype"}
Universe == { [kind |-> k, exports |-> e, variant |-> "distinct"] : k \in Kinds, e \in ExportSeqs }
             \cup { [kind |-> k, exports |-> << Exp(a, 1, x) >>, variant |-> v] : k \in Kinds, a \in {0, 1, 2}, x \in {"", "AliasA"}, v \in {"samename", "suffix"} }
             \cup { [kind |-> k, exports |-> << Exp(a, 1, "") >>, variant |-> "samemodule"] : k \in Kinds, a \in {0, 1, 3} }
             \cup { [kind |-> k, exports |-> << >>, variant |-> "initdecl"] : k \in Kinds }
             \cup { [kind |-> k, exports |-> << Exp(a, 1, "AliasA"), Exp(a, 2, "AliasB") >>, variant |-> "samemoduleboth"] : k \in Kinds, a \in {0, 3} }
             \cup { [kind |-> k, exports |-> << >>, variant |-> "bareimport"] : k \in Kinds }
             \cup { [kind |-> k, exports |-> << Exp(a, 1, x) >>, variant |-> "privpkgtop"] : k \in Kinds, a \in {0, 1, 3}, x \in {"", "AliasA"} }
             \cup { [kind |-> k, exports |-> << Exp(a, 1, x) >>, variant |-> "privpkginit"] : k \in Kinds, a \in {0, 1, 3}, x \in {"", "AliasA"} }
             \cup { [kind |-> k, exports |-> << Exp(2, 1, "") >>, variant |-> "pkgnamed"] : k \in Kinds }
             \cup { [kind |-> k, exports |-> e, variant |-> "samenameboth"] : k \in Kinds, e \in { << Exp(a, 1, ""), Exp(a, 2, "AliasA") >> : a \in {0, 1} } \cup { << Exp(0, 2, "AliasA"), Exp(0, 1, "") >> } }
             \cup { [kind |-> "class", exports |-> e, variant |-> "genericattr"] : e \in { << >>, << Exp(0, 1, "") >> } }
             \cup { [kind |-> k, exports |-> e, variant |-> "privalias"] : k \in Kinds, e \in { << Exp(a, 1, ""), Exp(0, 1, "_HidA") >> : a \in {1, 2} } \cup { << Exp(0, 1, "_HidA"), Exp(1, 1, "") >>, << Exp(0, 1, "_HidA") >> } }
             \cup { [kind |-> k, exports |-> e, variant |-> "conddecl"] : k \in Kinds, e \in { << >>, << Exp(0, 1, "") >>, << Exp(0, 2, "AliasA") >> } }
             \cup { [kind |-> "class", exports |-> e, variant |-> "redefclass"] : e \in { << >>, << Exp(0, 1, "") >> } }
             \cup { [kind |-> k, exports |-> e, variant |-> "privreexp"] : k \in Kinds, e \in { << Exp(3, t, x) >> : t \in {1, 2}, x \in {"", "AliasA"} } \cup { << Exp(3, 1, ""), Exp(1, 1, "") >> } }
             \cup { [kind |-> k, exports |-> e, variant |-> "newtype"] : k \in Kinds, e \in { << >>, << Exp(0, 2, "") >> } }
             \cup { [kind |-> k, exports |-> e, variant |-> v] : k \in Kinds, e \in { << >>, << Exp(0, 1, "") >> }, v \in {"privtwin", "privtwindeep", "privtwinlate"} }
             \cup { [kind |-> k, exports |-> << Exp(1, 1, "") >>, variant |-> "pkgmodreexp"] : k \in Kinds }
             \cup { [kind |-> "class", exports |-> e, variant |-> "exccls"] : e \in { << >>, << Exp(0, 1, "") >> } }
             \cup { [kind |-> k, exports |-> << Exp(a, 0, "") >>, variant |-> "stdlibname"] : k \in Kinds, a \in {0, 1, 3} }
             \cup { [kind |-> k, exports |-> << Exp(a, 1, ""), Exp(a, 2, "AliasA") >>, variant |-> "suffixalias"] : k \in Kinds, a \in {0, 1, 3} }
             \cup { [kind |-> k, exports |-> << Exp(a, 2, "AliasA"), Exp(a, 1, "") >>, variant |-> "suffixalias"] : k \in Kinds, a \in {0, 1} }
             \cup { [kind |-> "class", exports |-> e, variant |-> "sharedbase"] : e \in { << >>, << Exp(0, 1, "") >>, << Exp(1, 2, "") >> } }

BoundName(e) == IF e.alias = "" THEN DName(e.tgt) ELSE e.alias
PubAlias(e) == e.alias = "" \/ SubSeq(e.alias, 1, 1) # "_"      \* a binding under a private name exposes nothing
(* what package `at` exposes after executing its imports in order: name -> declaration (later bindings win) *)
Exposes(s, at, t) ==
  \E j \in 1..Len(s.exports) :
     /\ s.exports[j].at = at /\ s.exports[j].tgt = t /\ PubAlias(s.exports[j])
     /\ \A m \in (j + 1)..Len(s.exports) : ~(s.exports[m].at = at /\ BoundName(s.exports[m]) = BoundName(s.exports[j]))
ExposedNames(s, at, t) ==
  { BoundName(s.exports[j]) : j \in { j \in 1..Len(s.exports) : s.exports[j].at = at /\ s.exports[j].tgt = t /\ PubAlias(s.exports[j])
                                       /\ \A m \in (j + 1)..Len(s.exports) : ~(s.exports[m].at = at /\ BoundName(s.exports[m]) = BoundName(s.exports[j])) } }
PublicDecl(s, t) ==
  IF s.variant = "bareimport" THEN FALSE ELSE
  IF s.variant \in {"privtwin", "privtwindeep", "privtwinlate"} THEN t = 1 ELSE
  IF s.variant \in {"distinct", "samemodule", "initdecl", "sharedbase", "suffixalias", "stdlibname", "exccls", "pkgmodreexp", "newtype", "privreexp", "genericattr", "redefclass", "conddecl", "samenameboth", "pkgnamed", "privpkginit", "privpkgtop", "samemoduleboth"} THEN TRUE
  ELSE t = 1 /\ \E a \in Ats : Exposes(s, a, 1)       \* private modules: public only through the re-export, and only the re-exported declaration
ModHomeV(s, t) == IF s.variant = "privtwin" THEN (IF t = 1 THEN <<"sub", "deep", "modsame">> ELSE <<"_hid", "modsame">>)
                  ELSE IF s.variant = "privtwindeep" THEN (IF t = 1 THEN <<"sub", "deep", "modsame">> ELSE <<"sub", "deep", "_hid", "modsame">>) ELSE IF s.variant = "privtwinlate" THEN (IF t = 1 THEN <<"sub", "deep", "modsame">> ELSE <<"sub", "zz", "_hid", "modsame">>) ELSE IF s.variant = "pkgmodreexp" THEN (IF t = 1 THEN <<"sub", "deep">> ELSE <<"sub">>) ELSE IF s.variant = "stdlibname" /\ t = 2 THEN <<"sub", "logging">> ELSE IF s.variant = "sharedbase" THEN <<"sub", "deep", "moda">> ELSE IF s.variant = "initdecl" /\ t = 1 THEN <<"sub", "deep">> ELSE IF s.variant = "pkgnamed" /\ t = 2 THEN <<"sub", "deep">> ELSE IF s.variant = "privpkginit" /\ t = 1 THEN <<"sub", "_2d">> ELSE IF s.variant = "privpkgtop" /\ t = 1 THEN <<"_2d">> ELSE IF s.variant \in {"samemodule", "samemoduleboth"} THEN (IF t = 1 THEN <<"sub", "deep", "modsame">> ELSE <<"sub", "modsame">>) ELSE ModHome(t)
AllowedHomes(s, t) == { ModHomeV(s, t) } \cup { PkgPath(at) : at \in { a \in Ats : Exposes(s, a, t) } }
AllowedNames(s, t) == { DName(t) } \cup UNION { ExposedNames(s, a, t) : a \in Ats }
Targets(s) == {1} \cup { s.exports[j].tgt : j \in 1..Len(s.exports) }

(* the constructive placement: the shortest exposing package if shorter than the module, ties by path order; each declaration once *)
VARIABLES sc, placed, pc
vars == <<sc, placed, pc>>
Init == sc \in Universe /\ placed = {} /\ pc = "place"
Shorter(s, t) == { at \in Ats : Exposes(s, at, t) /\ Len(PkgPath(at)) < Len(ModHomeV(s, t)) }
Place ==
  /\ pc = "place"
  /\ placed' = { <<t, IF Shorter(sc, t) = {} THEN ModHomeV(sc, t)
                      ELSE PkgPath(CHOOSE a \in Shorter(sc, t) : \A b \in Shorter(sc, t) : Len(PkgPath(a)) < Len(PkgPath(b)) \/ (Len(PkgPath(a)) = Len(PkgPath(b)) /\ a <= b))>>
                 : t \in {1, 2} }
  /\ pc' = "done" /\ UNCHANGED sc
Next == Place
Spec == Init /\ [][Next]_vars /\ WF_vars(Next)
Inv_C03_ExactlyOnce2 == pc = "done" => \A t \in {1, 2} : Cardinality({ p \in placed : p[1] = t }) = 1
Inv_C03_Home2 == pc = "done" => \A p \in placed : p[2] \in AllowedHomes(sc, p[1])
Live_Done == <>(pc = "done")
Shape(s) == (IF Len(s.exports) = 0 THEN (IF s.variant = "initdecl" THEN "declared-in-package-file" ELSE "not-re-exported") ELSE IF Len(s.exports) = 1 THEN "single" ELSE
             IF s.exports[1].tgt = s.exports[2].tgt THEN (IF s.exports[1].at = s.exports[2].at THEN "same-package-twice" ELSE IF Len(PkgPath(s.exports[1].at)) = Len(PkgPath(s.exports[2].at)) THEN "two-packages-equal-depth" ELSE "two-depths")
             ELSE (IF BoundName(s.exports[1]) = BoundName(s.exports[2]) THEN "two-declarations-one-name" ELSE "two-declarations-one-package"))
            \o ":" \o s.kind \o (IF s.variant = "samemodule" THEN ":same-module-name" ELSE IF s.variant = "samemoduleboth" THEN ":same-module-name-both-re-exported-under-aliases" ELSE IF s.variant = "suffixalias" THEN ":name-is-suffix-of-aliased-name" ELSE IF s.variant = "stdlibname" THEN ":module-named-like-imported-stdlib-module" ELSE IF s.variant = "exccls" THEN ":exception-class" ELSE IF s.variant = "pkgmodreexp" THEN ":package-file-re-exported-as-module" ELSE IF s.variant = "privreexp" THEN ":re-exported-by-private-package" ELSE IF s.variant = "samenameboth" THEN ":same-name-in-two-private-modules" ELSE IF s.variant = "pkgnamed" THEN ":package-named-like-its-re-export" ELSE IF s.variant = "privpkginit" THEN ":declared-in-private-package-file" ELSE IF s.variant = "privpkgtop" THEN ":declared-in-private-package-file-beside-re-exporter" ELSE "") \o (IF s.variant = "conddecl" THEN ":declared-under-module-level-if-or-try" ELSE "") \o (IF s.variant = "privalias" THEN ":one-import-under-private-alias" ELSE "")
Emit == pc = "done" => PrintT(ToJson([kind |-> sc.kind, exports |-> sc.exports, variant |-> sc.variant, shape |-> Shape(sc)]))     \* shape: the signature of the scenario, for run-level judgements

(* obs = [decls: Seq of [tgt, occs: Seq [home, name]]] *)
(* members a class declaration must show, each exactly once (the private helper never) *)
OwnMember(t) == IF t = 1 THEN "m_d1" ELSE "m_d2"
ExpectedMembers(s, t) == IF s.kind # "class" THEN {} ELSE { OwnMember(t) } \cup (IF s.variant = "genericattr" /\ t = 1 THEN { "content", "item", "plain" } ELSE {}) \cup (IF s.variant = "redefclass" /\ t = 1 THEN { "retries", "verbose", "level" } ELSE {}) \cup (IF s.variant = "sharedbase" THEN { "m_shared", "Options", IF t = 1 THEN "Options.opt_m" ELSE "Options.own_opt" } ELSE {})
   \* Options: public nested class of the private base (with a method opt_m); class 2 defines a nested class Options of its own (with own_opt);
   \* members of nested classes are reported as Nested.member
MCount(ms, m) == Cardinality({ j \in 1..Len(ms) : ms[j] = m })
JudgeMembers(s, d) ==
  IF s.kind # "class" \/ Len(d.occs) # 1 \/ ~PublicDecl(s, d.tgt) THEN {}
  ELSE LET ms == d.occs[1].members IN
       { [property |-> "C03", clause |-> "ExactlyOnce", sig |-> "u2:member-" \o (IF MCount(ms, m) = 0 THEN "dropped" ELSE "duplicated") \o ":" \o s.variant \o ":" \o m,
          expected |-> "1", observed |-> ToString(MCount(ms, m))] : m \in { m \in ExpectedMembers(s, d.tgt) : MCount(ms, m) # 1 } }
       \cup { [property |-> "C04", clause |-> "NoLeak", sig |-> "u2:private-member-in-public-class:" \o s.variant, expected |-> "<<>>", observed |-> ToString(d.occs[1].privmembers)]
              : x \in { 1 } \cap { IF d.occs[1].privmembers = << >> THEN 0 ELSE 1 } }
       \cup { [property |-> "C03", clause |-> "ExactlyOnce", sig |-> "u2:member-duplicated:" \o s.variant \o ":other", expected |-> "1", observed |-> ms[j]]
              : j \in { j \in 1..Len(ms) : MCount(ms, ms[j]) > 1 /\ ms[j] \notin ExpectedMembers(s, d.tgt) } }
       \cup { [property |-> "C17", clause |-> "Precedence", sig |-> "u2:inherited-nested-class-member-beside-own:" \o s.variant, expected |-> "own definition only", observed |-> ms[j]]
              : j \in { j \in 1..Len(ms) : s.variant = "sharedbase" /\ d.tgt = 2 /\ ms[j] = "Options.opt_m" } }
Judge(s, obs) ==
  UNION { JudgeMembers(s, obs.decls[j]) : j \in 1..Len(obs.decls) } \cup
  UNION { LET d == obs.decls[j]
              n == Len(d.occs)
          IN IF ~PublicDecl(s, d.tgt)
             THEN (IF n > 0 THEN { [property |-> "C04", clause |-> "NoLeak", sig |-> "u2:" \o s.variant \o ":" \o s.kind \o (IF Len(s.exports) = 0 THEN ":not-re-exported" ELSE IF s.exports[1].alias = "" THEN ":by-name" ELSE ":by-alias"),
                                    expected |-> "0 occurrences", observed |-> ToString(n)] } ELSE {})
                  \cup (IF d.jsonpublic = "true" THEN { [property |-> "C04", clause |-> "Flags", sig |-> "u2:" \o s.variant \o ":" \o s.kind \o (IF Len(s.exports) = 0 THEN ":not-re-exported" ELSE IF s.exports[1].alias = "" THEN ":by-name" ELSE ":by-alias"),
                                                        expected |-> "false", observed |-> "true"] } ELSE {})
             ELSE
             (IF n = 0 THEN { [property |-> "C03", clause |-> "ExactlyOnce", sig |-> "u2:dropped:" \o Shape(s), expected |-> "1", observed |-> "0"] } ELSE {})
             \cup (IF n > 1 THEN { [property |-> "C03", clause |-> "ExactlyOnce", sig |-> "u2:duplicated:" \o Shape(s), expected |-> "1", observed |-> ToString(n)] } ELSE {})
             \cup (IF s.variant \in {"distinct", "samemodule", "initdecl", "sharedbase", "suffixalias", "stdlibname", "exccls", "pkgmodreexp", "newtype", "privreexp", "genericattr", "redefclass", "conddecl", "samenameboth", "pkgnamed", "privpkginit", "privpkgtop", "samemoduleboth", "privalias"} /\ n = 1 /\ d.occs[1].home \notin AllowedHomes(s, d.tgt) THEN { [property |-> "C03", clause |-> "Home", sig |-> "u2:" \o Shape(s), expected |-> ToString(AllowedHomes(s, d.tgt)), observed |-> ToString(d.occs[1].home)] } ELSE {})
             \cup (IF s.variant \in {"distinct", "samemodule", "initdecl", "sharedbase", "suffixalias", "stdlibname", "exccls", "pkgmodreexp", "newtype", "privreexp", "genericattr", "redefclass", "conddecl", "samenameboth", "pkgnamed", "privpkginit", "privpkgtop", "samemoduleboth", "privalias"} /\ n = 1 /\ d.occs[1].name \notin AllowedNames(s, d.tgt) THEN { [property |-> "C03", clause |-> "Name", sig |-> "u2:" \o Shape(s), expected |-> ToString(AllowedNames(s, d.tgt)), observed |-> d.occs[1].name] } ELSE {})
        : j \in 1..Len(obs.decls) }
=============================================================================
