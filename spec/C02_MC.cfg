SPECIFICATION Spec
INVARIANT Inv_C02_GoodAccepted
INVARIANT Inv_C02_BadRejected
INVARIANT Inv_C02_StackBounded
PROPERTY Live_Finishes
CHECK_DEADLOCK FALSE
