------------------------------ MODULE DocAttach ------------------------------
(***************************************************************************)
(* C13, part (ii): attachment of documentation to declarations, end to end.*)
(*                                                                         *)
(* A module contains four documented elements in some order: functions fa  *)
(* and fb, class CA (constructor, documented parameter and attribute, one  *)
(* method) and class CB (no constructor, one method).  Every documented    *)
(* item carries a unique token tok_<owner>_<item>.  The generator attaches *)
(* one documentation comment per declaration (action Attach).              *)
(***************************************************************************)
EXTENDS Naturals, Sequences, FiniteSets, TLC, Json

Elems == {"fa", "fb", "CA", "CB", "CC", "fc", "CD"}  \* CC: undocumented class with an attribute named like CA's; fc: three results, the first named
NE == 7
Perms6 == { p \in [1..6 -> Elems \ {"CD"}] : \A i, j \in 1..6 : i # j => p[i] # p[j] }
InsertAt(p, k, e) == [ i \in 1..7 |-> IF i < k THEN p[i] ELSE IF i = k THEN e ELSE p[i - 1] ]
PosOf(p, e) == CHOOSE i \in 1..6 : p[i] = e
(* every order of the six other elements, with CD first, last and right after CA (all neighbourhoods of CD; all 7! orders are 5 040 modules per style) *)
Perms == UNION { { InsertAt(p, 1, "CD"), InsertAt(p, 7, "CD"), InsertAt(p, PosOf(p, "CA") + 1, "CD") } : p \in Perms6 }
Styles == {"PLAINTEXT", "GOOGLE", "NUMPYDOC", "REST"}

(* documented items of an element: <<owner declaration, item, tag, tag name>> *)
FunItemsP(o, p) == { <<o, "desc", "desc", "">>, <<o, "p_" \o p, "param", p>>, <<o, "res", "result", "result_1">> }
FunItems(o, withExample) ==
  { <<o, "desc", "desc", "">>, <<o, "p_p", "param", "p">>, <<o, "res", "result", "result_1">> }
  \cup (IF withExample THEN { <<o, "ex", "example", "">> } ELSE {})
Items(e) ==
  CASE e = "fa" -> FunItems("fa", TRUE)
    [] e = "fb" -> FunItems("fb", FALSE)
    [] e = "CA" -> { <<"CA", "desc", "desc", "">>, <<"CA", "p_x", "param", "x">>, <<"CA.at", "at", "desc", "">> } \cup FunItems("CA.meth", FALSE)
                   \cup FunItemsP("CA.re__init__", "x")       \* a method whose name ends in __init__, its parameter is named like the constructor's
    [] e = "CB" -> { <<"CB", "desc", "desc", "">>, <<"CB.at", "at", "desc", "">>, <<"CB.In", "desc", "desc", "">>, <<"CB.In.at", "at", "desc", "">> }
                   \cup FunItems("CB.meth", FALSE)       \* CB and its nested class In each document an attribute called `at`
    [] e = "CC" -> {}
    [] e = "CD" -> { <<"CD", "p_z", "param", "z">> }     \* no class docstring; the constructor's docstring documents the parameter
    [] e = "fc" -> { <<"fc", "desc", "desc", "">>, <<"fc", "p_p", "param", "p">>,
                     <<"fc", "ra", "result", "count">>, <<"fc", "rb", "result", "result_1">>, <<"fc", "rc", "result", "result_2">> }
AllItems == UNION { Items(e) : e \in Elems }

VARIABLES order, i, comments
vars == <<order, i, comments>>
Init == order \in Perms /\ i = 1 /\ comments = {}
Attach ==
  /\ i <= NE
  /\ comments' = comments \cup { <<it[1], it>> : it \in Items(order[i]) }     \* each item goes to the comment of its own declaration
  /\ i' = i + 1 /\ UNCHANGED order
Next == Attach
Spec == Init /\ [][Next]_vars /\ WF_vars(Next)
Inv_C13_Attach == \A c \in comments : c[1] = c[2][1]
Inv_C13_Complete == i = NE + 1 => { c[2] : c \in comments } = AllItems
Inv_C13_OrderFree == i = NE + 1 => comments = { <<it[1], it>> : it \in AllItems }
Live_Done == <>(i = NE + 1)
Emit == i = NE + 1 => PrintT(ToJson(order))

(***************************************************************************)
(* Judging one module of a real run.                                       *)
(* obs = [style, found: Seq [owner, item, decl, tag, tagname], lines: Seq [decl, text: Seq(STRING)], digests...]  *)
(***************************************************************************)
ToSet(seq) == { seq[j] : j \in 1..Len(seq) }
Und(o) == IF Len(o) > 2 /\ SubSeq(o, 3, 3) = "." THEN SubSeq(o, 1, 2) \o "_" \o SubSeq(o, 4, Len(o)) ELSE o
DescLines(o) == << "tok_" \o Und(o) \o "_desc first line.", "Second line of " \o Und(o) \o "." >>
(* the code lines of fa's example: the prompts become comment marks, everything behind them is kept as written *)
ExCode(o) == IF o = "fa" THEN << "// tok_fa_ex(\">>> 1\",", "//        [...])" >> ELSE << >>
Structured(style) == style # "PLAINTEXT"
(* which items a style can carry: plain text keeps the whole docstring as description; reST has no examples section *)
Carried(it, style) ==
  CASE style = "PLAINTEXT" -> it[2] \notin {"ra", "rb", "rc", "p_z"}
    [] style = "REST" -> it[2] \notin {"ex", "ra", "rb", "rc"}
    [] style = "GOOGLE" -> it[2] \notin {"ra", "rb", "rc"}      \* only NumPy sections carry several results
    [] OTHER -> TRUE
Judge(obs) ==
  LET F == ToSet(obs.found)
      exp == { it \in AllItems : Carried(it, obs.style) }
      at(it) == { f \in F : f.owner = it[1] /\ f.item = it[2] }
      owner2decl(it) == IF Structured(obs.style) \/ it[2] = "desc" THEN it[1]
                        ELSE IF it[2] = "at" THEN SubSeq(it[1], 1, Len(it[1]) - 3) ELSE it[1]      \* plain text: items stay inside the docstring of their element (an attribute's: its class)
  IN
     { [property |-> "C13", clause |-> "Attach", sig |-> "lost:" \o obs.style \o ":" \o it[3], expected |-> it[1] \o "/" \o it[2], observed |-> "absent"] : it \in { it \in exp : at(it) = {} } }
  \cup { [property |-> "C13", clause |-> "Attach", sig |-> "repeated:" \o obs.style \o ":" \o it[3], expected |-> "once", observed |-> ToString(Cardinality(at(it)))] : it \in { it \in exp : Cardinality(at(it)) > 1 } }
  \cup { [property |-> "C13", clause |-> "Attach", sig |-> "wrong-element:" \o obs.style \o ":" \o it[3], expected |-> owner2decl(it), observed |-> ToString({ f.decl : f \in at(it) })]
         : it \in { it \in exp : \E f \in at(it) : f.decl # owner2decl(it) } }
  \cup { [property |-> "C13", clause |-> "Attach", sig |-> "wrong-tag:" \o obs.style \o ":" \o it[3], expected |-> it[3] \o " " \o it[4], observed |-> ToString({ <<f.tag, f.tagname>> : f \in at(it) })]
         : it \in { it \in exp : Structured(obs.style) /\ \E f \in at(it) : f.decl = it[1] /\ (f.tag # it[3] \/ (it[3] \in {"param", "result"} /\ f.tagname # it[4])) } }
  \cup { [property |-> "C13", clause |-> "Attach", sig |-> "result-tag-names-no-result:" \o obs.style, expected |-> ToString(f.sigres), observed |-> f.tagname]
         : f \in { f \in F : Structured(obs.style) /\ f.tag = "result" /\ f.tagname \notin ToSet(f.sigres) } }
  \cup { [property |-> "C13", clause |-> "Intact", sig |-> "example-lines:" \o obs.style, expected |-> ToString(ExCode(l.decl)), observed |-> ToString(l.excode)]
         : l \in { l \in ToSet(obs.lines) : obs.style \in {"NUMPYDOC", "GOOGLE"} /\ l.excode # ExCode(l.decl) } }
  \cup (IF obs.moddoc = << >> THEN {}      \* the modules have no docstring (a string statement after an assignment is none)
        ELSE { [property |-> "C13", clause |-> "Attach", sig |-> "module-description-from-another-statement:" \o obs.style, expected |-> "<<>>", observed |-> ToString(obs.moddoc)] })
  \cup { [property |-> "C13", clause |-> "Intact", sig |-> "description-lines:" \o obs.style, expected |-> ToString(DescLines(l.decl)), observed |-> ToString(l.text)]
         : l \in { l \in ToSet(obs.lines) : l.text # DescLines(l.decl) } }

(* Declarations of a package file that are called like a submodule of the package (def helper in pkg/__init__.py next to pkg/helper.py,  *)
(* class widget next to pkg/widget.py): each of the four descriptions stays with its own element.                                      *)
(* obs = [style, docs: Seq [decl, text: Seq(STRING)]]; decl is "helper", "widget", "@module:helper" or "@module:widget" *)
PkgExpected(decl) == CASE decl = "helper" -> << "tok_pkgfn_desc first line." >> [] decl = "widget" -> << "tok_pkgcls_desc first line." >>
                       [] decl = "@module:helper" -> << "tok_submodh_desc first line." >> [] decl = "@module:widget" -> << "tok_submodw_desc first line." >>
JudgePkgFile(obs) ==
  { [property |-> "C13", clause |-> "Attach", sig |-> "package-file-declaration-named-like-submodule:" \o obs.style \o ":" \o d.decl,
     expected |-> ToString(PkgExpected(d.decl)), observed |-> ToString(d.text)] : d \in { d \in ToSet(obs.docs) : d.text # PkgExpected(d.decl) } }

(* obs = [decl, a, b, sa, sb]: the comment of one declaration under two structured styles *)
JudgeStyle(obs) ==
  IF obs.a = obs.b THEN {}
  ELSE { [property |-> "C13", clause |-> "Style", sig |-> obs.sa \o "-vs-" \o obs.sb \o ":" \o obs.kind, expected |-> obs.a, observed |-> obs.b] }
=============================================================================
