SPECIFICATION Spec
CONSTANT Seeds = 24
CONSTANT Globs = 8
INVARIANT Inv_C08_ChooseOrderFree
INVARIANT Inv_C08_EmitOrderFree
INVARIANT EmitEnvs
PROPERTY Live_Done
CHECK_DEADLOCK FALSE
