------------------------------- MODULE PyTypes -------------------------------
(***************************************************************************)
(* C05 - type hints are translated faithfully and compositionally.         *)
(*                                                                         *)
(* Annotation terms are records [k, a, l]: constructor, argument terms,    *)
(* literal values (pairs <<type, value>>; only for k = "Literal").         *)
(* Canon(t) is the *meaning* of a Safe-DS type: a set of alternatives, so  *)
(* that `T?`, `union<T, Nothing?>` and nested unions coincide.  An         *)
(* alternative is an atom [c, n, args] where args is a sequence of         *)
(* meanings (sets of atoms).  ObsCanon gives the meaning of a type parsed  *)
(* from a stub.  The property is Canon(annotation) = ObsCanon(stub type)   *)
(* at every depth and in every position.                                   *)
(***************************************************************************)
EXTENDS Naturals, Sequences, FiniteSets, TLC, Json

CONSTANTS Tier           \* "quick" | "thorough": size of the explored universe

Atom(c, n, args) == [c |-> c, n |-> n, args |-> args]
Null == Atom("Null", "", <<>>)

T0(k) == [k |-> k, a |-> <<>>, l |-> <<>>]
T1(k, x) == [k |-> k, a |-> <<x>>, l |-> <<>>]
T2(k, x, y) == [k |-> k, a |-> <<x, y>>, l |-> <<>>]
T3(k, x, y, z) == [k |-> k, a |-> <<x, y, z>>, l |-> <<>>]
TL(ls) == [k |-> "Literal", a |-> <<>>, l |-> ls]

BuiltinName(k) == CASE k = "int" -> "Int" [] k = "str" -> "String" [] k = "bool" -> "Boolean" [] k = "float" -> "Float" [] k = "Any" -> "Any"
ClassName(k) == CASE k = "Loc" -> "LocCls" [] k = "Oth" -> "OthCls" [] k = "Col" -> "ColEnum" [] k = "TV" -> "TVar" [] k = "TVS" -> "TSelf"      \* TSelf: a type variable bound by LocCls whose name merely ends in "Self"

LitAtom(p) == IF p[1] = "none" THEN Null ELSE Atom("Lit", p[1] \o ":" \o p[2], <<>>)

RECURSIVE Canon(_)
Canon(t) ==
  LET k == t.k
      C(j) == Canon(t.a[j])
      n == Len(t.a)
  IN CASE k \in {"int", "str", "bool", "float", "Any"} -> { Atom("Builtin", BuiltinName(k), <<>>) }
       [] k = "None" -> { Null }
       [] k \in {"Loc", "Oth", "Col", "TV", "TVS"} -> { Atom("Named", ClassName(k), <<>>) }
       [] k \in {"list", "Sequence", "Collection"} -> { Atom("List", "", << C(1) >>) }
       [] k = "set" -> { Atom("Set", "", << C(1) >>) }
       [] k \in {"dict", "Mapping"} -> { Atom("Map", "", << C(1), C(2) >>) }
       [] k = "tuple" -> { Atom("Tuple", "", [ j \in 1..n |-> C(j) ]) }
       [] k \in {"Optional", "OrNone"} -> C(1) \cup { Null }
       [] k \in {"Union", "Or"} -> UNION { C(j) : j \in 1..n }
       [] k = "Literal" -> { LitAtom(t.l[j]) : j \in 1..Len(t.l) }
       [] k = "Callable" ->        \* a[1..n-1] parameters, a[n] return type
            { Atom("Fn", ToString(n - 1),
                   [ j \in 1..(n - 1) |-> C(j) ] \o
                   (IF C(n) = { Null } THEN <<>>          \* returns nothing (None, Optional[None], ...)
                    ELSE IF t.a[n].k = "tuple" THEN [ j \in 1..Len(t.a[n].a) |-> Canon(t.a[n].a[j]) ]
                    ELSE << C(n) >>)) }
       [] k = "Gen" -> { Atom("Named", "GenCls", << C(1) >>) }
       [] k = "Gen2" -> { Atom("Named", "PairCls", << C(1), C(2) >>) }      \* a generic class with two type parameters: the arguments keep their order
       [] k = "Alias" -> C(1)                                  \* a module-level alias `Name = <annotation>` used as the annotation: means what it abbreviates
       [] k = "VarTuple" -> { Atom("Tuple", "", << C(1) >>) }   \* tuple[X, ...]: a tuple type (the stub language has no variadic form)

(* Meaning of a type term parsed from a stub: [k, n, a, q, l].  Names are Python names (the harness undoes the  *)
(* naming conversion through the @PythonName annotations before judging; C05 runs without -nc anyway).          *)
RECURSIVE ObsCanon(_)
ObsCanon(t) ==
  LET k == t.k
      O(j) == ObsCanon(t.a[j])
      n == Len(t.a)
      base ==
        CASE k = "named" ->
               IF t.n \in {"Int", "String", "Boolean", "Float", "Any"} /\ n = 0 THEN { Atom("Builtin", t.n, <<>>) }
               ELSE IF t.n = "Nothing" /\ n = 0 THEN (IF t.q THEN { Null } ELSE { Atom("Nothing", "", <<>>) })
               ELSE IF t.n \in {"List", "Set", "Map", "Tuple"} THEN { Atom(t.n, "", [ j \in 1..n |-> O(j) ]) }
               ELSE { Atom("Named", t.n, [ j \in 1..n |-> O(j) ]) }
          [] k = "union" -> UNION { O(j) : j \in 1..n }
          [] k = "literal" -> { LitAtom(t.l[j]) : j \in 1..Len(t.l) }
          [] k = "callable" ->       \* a[1..n-1] parameter types, a[n] = [k |-> "arrow", a |-> result types]
               LET rs == [ j \in 1..Len(t.a[n].a) |-> ObsCanon(t.a[n].a[j]) ]
               IN { Atom("Fn", ToString(n - 1),
                         [ j \in 1..(n - 1) |-> O(j) ]
                         \o (IF rs = << { Null } >> THEN <<>> ELSE rs)) }  \* `-> result_1: Nothing?` means `-> ()`
          [] k = "none" -> { Atom("Missing", "", <<>>) }
          [] OTHER -> { Atom("Other", k, <<>>) }
  IN IF t.q THEN base \cup { Null } ELSE base

(***************************************************************************)
(* The universe of annotation terms.                                       *)
(***************************************************************************)
LeafK == {"int", "str", "bool", "float", "None", "Any", "Loc", "Oth", "Col"}
Leaves == { T0(k) : k \in LeafK }
LitTerms == { TL(<< <<"str", "a">> >>), TL(<< <<"str", "a">>, <<"str", "b">> >>), TL(<< <<"int", "1">>, <<"str", "a">> >>),
              TL(<< <<"bool", "true">> >>), TL(<< <<"str", "a">>, <<"none", "null">> >>), TL(<< <<"int", "-1">>, <<"int", "2">> >>) }
Unary == {"list", "Sequence", "Collection", "set", "Optional", "OrNone", "Gen"}
Binary == {"dict", "Mapping", "tuple", "Union", "Or", "Gen2"}
SmallLeaves == { T0("int"), T0("str"), T0("None"), T0("Loc"), TL(<< <<"str", "a">> >>) }
TinyLeaves == { T0("int"), T0("None"), T0("Loc") }

\* (operator arguments are evaluated by name in TLC: bind them once with LET)
Un(S) == LET s == S IN { T1(c, x) : c \in Unary, x \in s }
Bi(S) == LET s == S IN { T2(c, x, y) : c \in Binary, x \in s, y \in s }
Te(S) == LET s == S IN { T3(c, x, y, z) : c \in {"tuple", "Union"}, x \in s, y \in s, z \in s }
Ca(S) == LET s == S IN { T1("Callable", r) : r \in s } \cup { T2("Callable", x, r) : x \in s, r \in s }
           \cup { T3("Callable", x, y, r) : x \in s, y \in s, r \in s }
D1(S) == LET s == S IN s \cup Un(s) \cup Bi(s)

Base == Leaves \cup LitTerms
(* Universes are operators with a parameter on purpose: TLC pre-evaluates every zero-arity constant definition of  *)
(* the root module at start-up, including the ones a configuration does not use.                                  *)
\* (`Name = None` is no type alias)
AliasTerms(S) == LET s == { x \in S : x.k # "None" } IN { T1("Alias", x) : x \in s } \cup { T1(c, T1("Alias", x)) : c \in {"list", "Optional", "OrNone"}, x \in s }
VarTuples(S) == LET s == S IN { T1("VarTuple", x) : x \in s } \cup { T1(c, T1("VarTuple", x)) : c \in {"list", "Optional"}, x \in s }
BoundVarTerms == { T0("TVS"), T1("list", T0("TVS")), T2("dict", T0("str"), T0("TVS")), T1("Optional", T0("TVS")), T2("tuple", T0("TVS"), T0("int")) }
QuickTerms(dummy) ==
  BoundVarTerms \cup AliasTerms(SmallLeaves \cup Un(TinyLeaves) \cup Bi(TinyLeaves)) \cup VarTuples(SmallLeaves \cup Un(TinyLeaves)) \cup
  D1(Base) \cup Te(SmallLeaves) \cup Ca(SmallLeaves)
  \cup Un(Un(SmallLeaves) \cup Bi(TinyLeaves) \cup Ca(TinyLeaves))                \* depth 2 under unary constructors
  \cup Bi(Un(TinyLeaves) \cup TinyLeaves)                                         \* depth 2 under binary constructors
  \cup { T2("Callable", x, r) : x \in Un(TinyLeaves), r \in Un(TinyLeaves) \cup { T2("tuple", T0("int"), T0("str")) } }
ThoroughTerms(dummy) ==
  QuickTerms(dummy) \cup Te(Leaves) \cup Un(D1(SmallLeaves)) \cup Bi(Un(SmallLeaves) \cup SmallLeaves)
  \cup Ca(Un(TinyLeaves) \cup SmallLeaves) \cup Un(Un(Un(TinyLeaves)))
UniverseOf(tier) == IF tier = "quick" THEN QuickTerms(0) ELSE ThoroughTerms(0)

(***************************************************************************)
(* Design checks: one behaviour per term.                                  *)
(***************************************************************************)
VARIABLES term, phase
vars == <<term, phase>>
Init == term \in UniverseOf(Tier) /\ phase = "annotated"
Translate == phase = "annotated" /\ phase' = "translated" /\ UNCHANGED term
Next == Translate
Spec == Init /\ [][Next]_vars

(* Compositionality: the meaning of a constructed term is a function of the meanings of its arguments only. *)
Lift(k, ms) ==
  CASE k \in {"list", "Sequence", "Collection"} -> { Atom("List", "", << ms[1] >>) }
    [] k = "set" -> { Atom("Set", "", << ms[1] >>) }
    [] k \in {"dict", "Mapping"} -> { Atom("Map", "", << ms[1], ms[2] >>) }
    [] k = "tuple" -> { Atom("Tuple", "", ms) }
    [] k \in {"Optional", "OrNone"} -> ms[1] \cup { Null }
    [] k \in {"Union", "Or"} -> UNION { ms[j] : j \in 1..Len(ms) }
    [] k = "Gen" -> { Atom("Named", "GenCls", << ms[1] >>) }
    [] k = "Gen2" -> { Atom("Named", "PairCls", << ms[1], ms[2] >>) }
Inv_C05_Compositional ==
  term.k \in (Unary \cup Binary) => Canon(term) = Lift(term.k, [ j \in 1..Len(term.a) |-> Canon(term.a[j]) ])
Inv_C05_NonEmpty == Canon(term) # {}
Inv_C05_OptionalIdempotent == Canon(T1("Optional", T1("Optional", term))) = Canon(T1("Optional", term))
Inv_C05_UnionDedup == Canon(T2("Union", term, term)) = Canon(term)
Emit == phase = "translated" => PrintT(ToJson(term))

(***************************************************************************)
(* Judging a real run.  obs = [missing, pos: Seq of [pos, ty]] where ty is  *)
(* a stub type term (or k = "none" when the position carries no type) and  *)
(* for pos = "result" a sequence of result types.                          *)
(***************************************************************************)
RECURSIVE Unalias(_)
Unalias(t) == IF t.k = "Alias" THEN Unalias(t.a[1]) ELSE t
ExpectedResults(t) ==
  IF Canon(t) = { Null } THEN <<>>       \* "-> None" and its equivalent spellings (Optional[None], None | None)
  ELSE IF Unalias(t).k = "tuple" THEN [ j \in 1..Len(Unalias(t).a) |-> Canon(Unalias(t).a[j]) ]      \* the elements of a returned tuple are the results;
  ELSE << Canon(t) >>                                                                               \* a variadic tuple is one result

Shape(t) == t.k \o (IF \E j \in 1..Len(t.a) : t.a[j].k = "Literal" THEN "+Literal" ELSE "")
                \o (IF \E j \in 1..Len(t.a) : Canon(t.a[j]) = { Null } THEN "+None" ELSE "")

(* A spelling of "returns nothing" other than the literal `None` (None | None, Optional[None]) may be shown     *)
(* either as no result or as one result of type Nothing?: the statement only fixes the literal `-> None`.      *)
ObsSeq(t, o) ==
  LET raw == [ j \in 1..Len(o.tys) |-> ObsCanon(o.tys[j]) ]
  IN IF o.pos = "result" /\ t.k # "None" /\ Canon(t) = { Null } /\ raw = << { Null } >> THEN <<>> ELSE raw
ExpSeq(t, o) == IF o.pos = "result" THEN ExpectedResults(t) ELSE << Canon(t) >>

(* "Optional or '| None' to a nullable type": when the meaning is one class, builtin, list, set, map or tuple type plus null, the type is    *)
(* written in its nullable form `T?`, however the annotation spells it (duplicates, order, Optional / Union / |); a type variable, a    *)
(* generic class and a callable have no nullable form and stay `union<T, Nothing?>`.                                                   *)
HasNullableForm(a) == a.c \in {"Builtin", "List", "Set", "Map", "Tuple"} \/ (a.c = "Named" /\ a.args = <<>> /\ a.n \notin {"TVar", "TSelf"})
MustBeNullable(t) == LET m == Canon(t) IN Null \in m /\ Cardinality(m \ {Null}) = 1 /\ HasNullableForm(CHOOSE a \in m \ {Null} : TRUE)
JudgeForm(t, obs) ==
  { [ property |-> "C05", clause |-> "NullableForm", sig |-> o.pos \o ":nullable-type-written-as-union:" \o Shape(t),
      expected |-> "T?", observed |-> ToString(o.tys[1]) ]
    : o \in { o \in { obs.pos[j] : j \in 1..Len(obs.pos) } : ~o.missing /\ Len(o.tys) = 1 /\ MustBeNullable(t) /\ o.tys[1].k = "union" } }
(* "Literal to literal": every literal value is written once *)
RepeatsValue(ty) == ty.k = "literal" /\ \E j, k \in 1..Len(ty.l) : j < k /\ ty.l[j] = ty.l[k]
JudgeLiteral(t, obs) ==
  { [ property |-> "C05", clause |-> "LiteralOnce", sig |-> o.pos \o ":literal-value-written-twice:" \o Shape(t),
      expected |-> "each value once", observed |-> ToString(o.tys[1]) ]
    : o \in { o \in { obs.pos[j] : j \in 1..Len(obs.pos) } : ~o.missing /\ Len(o.tys) = 1 /\ Len(t.l) = Cardinality({ t.l[j] : j \in 1..Len(t.l) })
                                                               /\ (RepeatsValue(o.tys[1]) \/ (o.tys[1].k = "union" /\ \E m \in 1..Len(o.tys[1].a) : RepeatsValue(o.tys[1].a[m]))) } }
Judge(t, obs) ==
  JudgeForm(t, obs) \cup JudgeLiteral(t, obs) \cup
  { [ property |-> "C05", clause |-> "Position",
      sig |-> o.pos \o ":" \o (IF o.missing THEN "declaration-missing:" ELSE "") \o Shape(t),
      expected |-> ToString(ExpSeq(t, o)),
      observed |-> ToString(ObsSeq(t, o)) ]
    : o \in { o \in { obs.pos[j] : j \in 1..Len(obs.pos) } : o.missing \/ ObsSeq(t, o) # ExpSeq(t, o) } }
=============================================================================
