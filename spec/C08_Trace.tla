------------------------------ MODULE C08_Trace ------------------------------
(* Trace validation for C08: digests of the complete output of one package under different environments. *)
EXTENDS Naturals, Sequences, TLC, Json, IOUtils
D == INSTANCE Determinism WITH Seeds <- 0, Globs <- 0, cset <- {}, order <- <<>>, k <- 0, best <- 0, emitted <- <<>>
Obs == JsonDeserialize(IOEnv.OBS_FILE)
VARIABLES n, bad
TInit == n = 0 /\ bad = {}
TNext == /\ n < Len(Obs)
         /\ n' = n + 1
         /\ bad' = D!JudgeRuns(Obs[n + 1].obs)
TSpec == TInit /\ [][TNext]_<<n, bad>>
Report == bad = {} \/ PrintT(ToJson([id |-> Obs[n].id, bad |-> bad]))
AllConsumed == TLCGet("stats").diameter - 1 = Len(Obs)
=============================================================================
