------------------------------ MODULE C20_Trace ------------------------------
(* Trace validation for C20: the TODO markers in front of every emitted declaration of a real run. *)
EXTENDS Naturals, Sequences, TLC, Json, IOUtils
T == INSTANCE TodoFlush WITH Tier <- "quick", sc <- 0, ip <- 0, toRaise <- {}, pending <- {}, todo <- <<>>, pc <- ""
Obs == JsonDeserialize(IOEnv.OBS_FILE)
VARIABLES n, bad
TInit == n = 0 /\ bad = {}
TNext == /\ n < Len(Obs)
         /\ n' = n + 1
         /\ bad' = T!Judge(Obs[n + 1].obs)
TSpec == TInit /\ [][TNext]_<<n, bad>>
Report == bad = {} \/ PrintT(ToJson([id |-> Obs[n].id, bad |-> bad]))
AllConsumed == TLCGet("stats").diameter - 1 = Len(Obs)
=============================================================================
