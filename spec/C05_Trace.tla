------------------------------ MODULE C05_Trace ------------------------------
(* Trace validation for C05: the types a real run wrote for one annotation in five positions are judged against PyTypes!Canon. *)
EXTENDS Naturals, Sequences, TLC, Json, IOUtils
P == INSTANCE PyTypes WITH Tier <- "quick", term <- 0, phase <- ""
Obs == JsonDeserialize(IOEnv.OBS_FILE)
VARIABLES n, bad
TInit == n = 0 /\ bad = {}
TNext == /\ n < Len(Obs)
         /\ n' = n + 1
         /\ bad' = P!Judge(Obs[n + 1].sc, Obs[n + 1].obs)
TSpec == TInit /\ [][TNext]_<<n, bad>>
Report == bad = {} \/ PrintT(ToJson([id |-> Obs[n].id, bad |-> bad]))
AllConsumed == TLCGet("stats").diameter - 1 = Len(Obs)
=============================================================================
