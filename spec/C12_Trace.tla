------------------------------ MODULE C12_Trace ------------------------------
(* Trace validation for C12: the inventory a real run wrote for each module, judged against Walker!ExpectedInventory. *)
EXTENDS Naturals, Sequences, TLC, Json, IOUtils
W == INSTANCE Walker WITH Tier <- "quick", mod <- 0, ev <- 0, stack <- <<>>, api <- {}, owns <- {}
Obs == JsonDeserialize(IOEnv.OBS_FILE)
VARIABLES n, bad
TInit == n = 0 /\ bad = {}
TNext == /\ n < Len(Obs)
         /\ n' = n + 1
         /\ bad' = IF Obs[n + 1].kind = "walk" THEN W!JudgeWalk(Obs[n + 1].sc, Obs[n + 1].obs) ELSE W!Judge(Obs[n + 1].sc, Obs[n + 1].obs)
TSpec == TInit /\ [][TNext]_<<n, bad>>
Report == bad = {} \/ PrintT(ToJson([id |-> Obs[n].id, bad |-> bad]))
AllConsumed == TLCGet("stats").diameter - 1 = Len(Obs)
=============================================================================
