------------------------------ MODULE Signature ------------------------------
(***************************************************************************)
(* C06 - parameter lists are reproduced exactly.                           *)
(*                                                                         *)
(* The analyser walks the Python parameter list of a callable once         *)
(* (action AnalyseParam, one step per parameter, building the inventory    *)
(* `api`), the generator then walks the inventory once (action EmitParam,  *)
(* building the stub parameter list `stub`), skipping the implicit         *)
(* receiver.  A behaviour starts by choosing a signature from the universe *)
(* (Init), so "for all signatures" is "for all behaviours".                *)
(*                                                                         *)
(* The same module provides Expected(sc) (the facts the statement fully    *)
(* determines) and Judge(sc, obs) used by trace validation of real runs.   *)
(***************************************************************************)
EXTENDS Naturals, Sequences, FiniteSets, TLC, Json

CONSTANTS MaxP            \* maximal number of explicit parameters

Kinds == {"posonly", "pos", "vararg", "kwonly", "kwarg"}
Rank(k) == CASE k = "posonly" -> 1 [] k = "pos" -> 2 [] k = "vararg" -> 3 [] k = "kwonly" -> 4 [] k = "kwarg" -> 5
CallableKinds == {"function", "method", "static", "classmethod", "ctor"}
\* "starmethod": an instance method written without a named receiver (its first parameter is the star-args parameter): Python passes
\* the instance as args[0], the parameter list has no implicit receiver to remove
\* "newmethod": def __new__(cls, ...) - Python passes the class implicitly although the method carries no decorator
\* "docfunction": a function whose NumPy-style docstring gives every parameter a type (and says nothing about defaults); it is analysed with
\* the docstring as preferred type source - which decides types only: defaults and optionality are those of the Python parameter list
\* "refunction": the function is defined twice; the later definition (the scenario's parameter list) is the function, the earlier one
\* (which shares the first parameter name) is gone
\* "dataclass": the constructor that @dataclass derives from the annotated fields of the class (positional-or-keyword parameters in field
\* order, a field's value is the default)
CkCode(c) == CASE c = "dataclass" -> 10 [] c = "refunction" -> 9 [] c = "docfunction" -> 8 [] c = "function" -> 0 [] c = "method" -> 1 [] c = "static" -> 2 [] c = "classmethod" -> 3 [] c = "ctor" -> 4 [] c = "starmethod" -> 5 [] c = "starctor" -> 6 [] c = "newmethod" -> 7
HasReceiver(c) == c \in {"method", "classmethod", "ctor", "newmethod", "dataclass"}

(* Literal defaults: Python source text, literal type, canonical value (Python value semantics, B.7). *)
Lits == <<
  [src |-> "0",      t |-> "int",   v |-> "0"],
  [src |-> "1",      t |-> "int",   v |-> "1"],
  [src |-> "-1",     t |-> "int",   v |-> "-1"],
  [src |-> "+3",     t |-> "int",   v |-> "3"],
  [src |-> "0x10",   t |-> "int",   v |-> "16"],
  [src |-> "-9223372036854775807", t |-> "int", v |-> "-9223372036854775807"],      \* signed and not representable as a double
  [src |-> "+9007199254740993",    t |-> "int", v |-> "9007199254740993"],
  [src |-> "18446744073709551617", t |-> "int", v |-> "18446744073709551617"],
  [src |-> "1.5",    t |-> "float", v |-> "1.5"],
  [src |-> "-2.5",   t |-> "float", v |-> "-2.5"],
  [src |-> "1e10",   t |-> "float", v |-> "10000000000.0"],
  [src |-> "0.0",    t |-> "float", v |-> "0.0"],
  [src |-> "@empty", t |-> "str",   v |-> ""],
  [src |-> "@s",     t |-> "str",   v |-> "s"],
  [src |-> "@its",   t |-> "str",   v |-> "it's"],
  [src |-> "@dqboth", t |-> "str",  v |-> "\"quoted\""],
  [src |-> "@dqend", t |-> "str",   v |-> "say \"hi\""],
  [src |-> "@bsl",   t |-> "str",   v |-> "a\\b"],
  [src |-> "True",   t |-> "bool",  v |-> "true"],
  [src |-> "False",  t |-> "bool",  v |-> "false"],
  [src |-> "None",   t |-> "none",  v |-> "null"] >>
NL == Len(Lits)
NoDefault == [t |-> "nodefault", v |-> ""]

LegalKinds(s) ==
  /\ \A i, j \in DOMAIN s : i < j => Rank(s[i]) <= Rank(s[j])
  /\ Cardinality({i \in DOMAIN s : s[i] = "vararg"}) <= 1
  /\ Cardinality({i \in DOMAIN s : s[i] = "kwarg"}) <= 1

LegalDefaults(s, d) ==
  /\ \A i \in DOMAIN s : s[i] \in {"vararg", "kwarg"} => ~d[i]
  /\ \A i, j \in DOMAIN s : (i < j /\ s[i] \in {"posonly", "pos"} /\ s[j] \in {"posonly", "pos"} /\ d[i]) => d[j]

Shapes(n) == { sd \in [1..n -> Kinds] \X [1..n -> BOOLEAN] : LegalKinds(sd[1]) /\ LegalDefaults(sd[1], sd[2]) }

RECURSIVE SumCodes(_, _)
SumCodes(s, i) == IF i = 0 THEN 0 ELSE Rank(s[i]) * i + SumCodes(s, i - 1)

(* Which literal the i-th parameter gets: varies with shape, callable kind and position. *)
LitIndex(s, ck, ann, i) == ((SumCodes(s, Len(s)) + 3 * CkCode(ck) + 5 * i + (IF ann THEN 7 ELSE 0)) % NL) + 1

Scenario(n, sd, ck, ann, selfish) ==
  [ ck |-> ck, ann |-> ann, selfish |-> selfish,
    params |-> [ i \in 1..n |->
                 [ name |-> IF selfish /\ i = 1 THEN "self" ELSE "p" \o ToString(i),
                   kind |-> sd[1][i],
                   lit  |-> IF sd[2][i] THEN LitIndex(sd[1], ck, ann, i) ELSE 0 ] ] ]

Universe ==
  UNION { { Scenario(n, sd, ck, ann, FALSE) : sd \in Shapes(n), ck \in CallableKinds, ann \in BOOLEAN } : n \in 0..MaxP }
  \cup
  UNION { { Scenario(n, sd, ck, ann, FALSE) : sd \in { x \in Shapes(n) : x[1][1] = "vararg" }, ann \in BOOLEAN, ck \in {"starmethod", "starctor"} } : n \in 1..MaxP }   \* starctor: a constructor without a named receiver
  \cup
  UNION { { Scenario(n, sd, "newmethod", ann, FALSE) : sd \in Shapes(n), ann \in BOOLEAN } : n \in 0..2 }
  \cup
  UNION { { Scenario(n, sd, "docfunction", ann, FALSE) : sd \in Shapes(n), ann \in BOOLEAN } : n \in 1..2 }
  \cup
  UNION { { Scenario(n, sd, "refunction", ann, FALSE) : sd \in Shapes(n), ann \in BOOLEAN } : n \in 1..2 }
  \cup
  UNION { { Scenario(n, sd, "dataclass", TRUE, FALSE) : sd \in { x \in Shapes(n) : \A j \in 1..n : x[1][j] = "pos" } } : n \in 1..MaxP }
  \cup
  UNION { { Scenario(n, sd, ck, TRUE, TRUE) :
              sd \in { x \in Shapes(n) : x[1][1] \in {"posonly", "pos"} }, ck \in {"function", "static"} } : n \in 1..MaxP }

(***************************************************************************)
(* Facts the statement determines.                                         *)
(***************************************************************************)
AssignedBy(k) == CASE k = "posonly" -> "POSITION_ONLY" [] k = "pos" -> "POSITION_OR_NAME"
                   [] k = "vararg" -> "POSITIONAL_VARARG" [] k = "kwonly" -> "NAME_ONLY" [] k = "kwarg" -> "NAMED_VARARG"
ReceiverName(ck) == IF ck \in {"classmethod", "newmethod"} THEN "cls" ELSE "self"

DefaultOf(p) == IF p.lit = 0 THEN NoDefault ELSE [t |-> Lits[p.lit].t, v |-> Lits[p.lit].v]

ExpectedStub(sc) == [ i \in 1..Len(sc.params) |-> [ name |-> sc.params[i].name, dflt |-> DefaultOf(sc.params[i]) ] ]

ExpectedJson(sc) ==
  LET own == [ i \in 1..Len(sc.params) |->
                 [ name |-> sc.params[i].name, kind |-> AssignedBy(sc.params[i].kind), optional |-> sc.params[i].lit # 0 ] ]
  IN IF HasReceiver(sc.ck)
     THEN << [ name |-> ReceiverName(sc.ck), kind |-> "IMPLICIT", optional |-> FALSE ] >> \o own
     ELSE own

(***************************************************************************)
(* The pipeline for one callable as a state machine.                       *)
(***************************************************************************)
VARIABLES sc, pc, i, api, stub
vars == <<sc, pc, i, api, stub>>

PyParams(s) ==     \* the Python parameter list, receiver included
  IF HasReceiver(s.ck)
  THEN << [ name |-> ReceiverName(s.ck), kind |-> "pos", lit |-> 0, receiver |-> TRUE ] >>
       \o [ k \in 1..Len(s.params) |-> [ name |-> s.params[k].name, kind |-> s.params[k].kind, lit |-> s.params[k].lit, receiver |-> FALSE ] ]
  ELSE [ k \in 1..Len(s.params) |-> [ name |-> s.params[k].name, kind |-> s.params[k].kind, lit |-> s.params[k].lit, receiver |-> FALSE ] ]

Init == sc \in Universe /\ pc = "analyse" /\ i = 1 /\ api = <<>> /\ stub = <<>>

AnalyseParam ==
  /\ pc = "analyse" /\ i <= Len(PyParams(sc))
  /\ LET p == PyParams(sc)[i] IN
       api' = Append(api, [ name |-> p.name,
                            kind |-> IF p.receiver THEN "IMPLICIT" ELSE AssignedBy(p.kind),
                            optional |-> p.lit # 0,
                            dflt |-> DefaultOf(p) ])
  /\ i' = i + 1 /\ UNCHANGED <<sc, pc, stub>>

AnalysisDone ==
  /\ pc = "analyse" /\ i > Len(PyParams(sc))
  /\ pc' = "emit" /\ i' = 1 /\ UNCHANGED <<sc, api, stub>>

EmitParam ==
  /\ pc = "emit" /\ i <= Len(api)
  /\ stub' = IF api[i].kind = "IMPLICIT" THEN stub       \* the receiver is skipped by its role, not by its name or position
             ELSE Append(stub, [ name |-> api[i].name, dflt |-> api[i].dflt ])
  /\ i' = i + 1 /\ UNCHANGED <<sc, pc, api>>

EmitDone ==
  /\ pc = "emit" /\ i > Len(api)
  /\ pc' = "done" /\ UNCHANGED <<sc, i, api, stub>>

Next == AnalyseParam \/ AnalysisDone \/ EmitParam \/ EmitDone
Spec == Init /\ [][Next]_vars /\ WF_vars(Next)

(* Properties of the design. *)
Inv_C06_List ==
  pc = "done" => /\ Len(stub) = Len(sc.params)
                 /\ \A k \in 1..Len(stub) : stub[k].name = sc.params[k].name
Inv_C06_Defaults ==
  pc = "done" => \A k \in 1..Len(stub) : stub[k].dflt = DefaultOf(sc.params[k])
Inv_C06_Kinds ==
  pc = "done" => /\ Len(api) = Len(sc.params) + (IF HasReceiver(sc.ck) THEN 1 ELSE 0)
                 /\ [ k \in 1..Len(api) |-> [name |-> api[k].name, kind |-> api[k].kind, optional |-> api[k].optional] ] = ExpectedJson(sc)
Inv_C06_ReceiverOnlyFirst ==
  \A k \in 1..Len(api) : api[k].kind = "IMPLICIT" => k = 1 /\ HasReceiver(sc.ck)
Inv_C06_OptionalIffDefault ==
  \A k \in 1..Len(api) : api[k].optional <=> api[k].dflt # NoDefault
Inv_DoneAgrees == pc = "done" => stub = ExpectedStub(sc)
Live_Terminates == <>(pc = "done")
Emit == pc = "done" => PrintT(ToJson(sc))

(***************************************************************************)
(* Judging what a real run produced for scenario s.                        *)
(* obs = [missing, stub: Seq [name, dflt], json: Seq [name, kind, optional]] *)
(***************************************************************************)
FirstDiff(a, b) ==   \* smallest index at which two sequences differ (Len+1 of the shorter if one is a prefix)
  LET n == IF Len(a) < Len(b) THEN Len(a) ELSE Len(b)
      D == { k \in 1..n : a[k] # b[k] }
  IN IF D = {} THEN n + 1 ELSE CHOOSE k \in D : \A m \in D : k <= m

KindAt(s, k) == IF k <= Len(s.params) THEN s.params[k].kind ELSE "beyond"
LitTypeAt(s, k) == IF k <= Len(s.params) /\ s.params[k].lit # 0 THEN Lits[s.params[k].lit].t ELSE "nodefault"

Judge(s, obs) ==
  IF obs.missing THEN { [ property |-> "C06", clause |-> "List", sig |-> s.ck \o ":declaration-missing",
                          expected |-> "declared", observed |-> "absent" ] }
  ELSE
  LET es == ExpectedStub(s)
      ej == ExpectedJson(s)
      os == obs.stub
      oj == obs.json
      names(q) == [ k \in 1..Len(q) |-> q[k].name ]
  IN
    (IF names(os) # names(es)
       THEN { [ property |-> "C06", clause |-> "List",
                sig |-> s.ck \o ":" \o (IF Len(os) # Len(es) THEN "length" ELSE "name") \o ":" \o KindAt(s, FirstDiff(names(os), names(es))),
                expected |-> ToString(names(es)), observed |-> ToString(names(os)) ] }
       ELSE { [ property |-> "C06", clause |-> "Defaults",
                sig |-> s.ck \o ":" \o s.params[k].kind \o ":" \o LitTypeAt(s, k),
                expected |-> ToString(es[k].dflt), observed |-> ToString(os[k].dflt) ] : k \in { k \in 1..Len(es) : os[k].dflt # es[k].dflt } })
    \cup
    (IF Len(oj) # Len(ej)
       THEN { [ property |-> "C06", clause |-> "Kinds", sig |-> s.ck \o ":json-length",
                expected |-> ToString(ej), observed |-> ToString(oj) ] }
       ELSE { [ property |-> "C06", clause |-> "Kinds",
                sig |-> s.ck \o ":" \o ej[k].kind \o ":" \o (IF oj[k].kind # ej[k].kind THEN "kind" ELSE IF oj[k].name # ej[k].name THEN "name" ELSE "optional"),
                expected |-> ToString(ej[k]), observed |-> ToString(oj[k]) ] : k \in { k \in 1..Len(ej) : oj[k] # ej[k] } })
=============================================================================
