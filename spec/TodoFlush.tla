------------------------------ MODULE TodoFlush ------------------------------
(***************************************************************************)
(* C20 - TODO markers flag exactly the declarations that need attention.   *)
(*                                                                         *)
(* The generator collects markers in a pending set while it renders the    *)
(* parts of a declaration (Raise) and writes them out in front of the      *)
(* declaration (Flush), clearing the set.  The set is reset at the start   *)
(* of a module (BeginModule).  A declaration that is skipped (private, or  *)
(* moved to a re-exporting package) raises nothing.                        *)
(*                                                                         *)
(* A scenario is a container (module functions / class methods / class     *)
(* attributes) with a sequence of declaration shapes.  TLC explores every  *)
(* sequence of three shapes and every order in which the markers of one    *)
(* declaration are raised.                                                 *)
(***************************************************************************)
EXTENDS Naturals, Sequences, FiniteSets, TLC, Json

CONSTANTS Tier

(* marker kinds of the statement *)
Listed == {"pmiss", "rmiss", "amiss", "tuple", "set", "listmulti", "setmulti", "variadic", "classmethod",
           "optposonly", "reqkwonly", "multi", "unknownvalue"}
(* kinds whose construct is visible in the emitted declaration (read from the observed declaration, DESIGN 7 C20) *)
ShownKinds == {"pmiss", "amiss", "tuple", "set", "listmulti", "setmulti", "multi", "unknownvalue"}
(* kinds whose construct the stub no longer shows (read from the scenario) *)
ScenarioKinds == Listed \ ShownKinds

Shape(c, vis, f) == [c |-> c, vis |-> vis, f |-> f]
FunFeatureSets(tier) ==
  { {}, {"pmiss"}, {"rmiss"}, {"tuple"}, {"set"}, {"listmulti"}, {"set", "setmulti"}, {"variadic"}, {"optposonly"}, {"reqkwonly"},
    {"unknownvalue"},
    {"@calltuple"},                  \* a callable parameter whose result is a tuple: written as two results, no tuple type is shown
    {"@kwnone"},                     \* a keyword-only parameter whose default is None: optional, so no marker
    {"@kwcall"},                     \* a keyword-only parameter whose default is a call: Python gives it a default, so it is not a required one
    {"optposonly", "@poscall"},      \* a position-only parameter whose default is a module constant: optional, so the marker
    {"optposonly", "@posnone"} }     \* a position-only parameter whose default is None: optional, so the marker
  \cup (IF tier = "quick" THEN {} ELSE { {"pmiss", "tuple", "variadic"}, {"rmiss", "reqkwonly"}, {"optposonly", "unknownvalue", "set"} })
FunShapes(tier) == { Shape("fun", TRUE, f) : f \in FunFeatureSets(tier) } \cup { Shape("fun", FALSE, {"pmiss", "variadic", "tuple"}) }
MethodShapes(tier) ==
  { Shape("method", TRUE, f) : f \in FunFeatureSets(tier) }
  \cup { Shape("method", TRUE, {"classmethod"}), Shape("method", TRUE, {"classmethod", "set"}), Shape("method", FALSE, {"pmiss", "classmethod", "tuple"}) }
AttrShapes(tier) ==
  { Shape("attr", TRUE, f) : f \in { {}, {"amiss"}, {"tuple"}, {"set"}, {"listmulti"}, {"set", "setmulti"},
                                      {"amiss", "@prop"}, {"set", "@prop"} } }      \* "@prop": the attribute is a property (a method with @property)
  \cup { Shape("attr", FALSE, {"amiss", "tuple"}) }
(* classes: signature-level markers (constructor parameters, multiple inheritance); each class has one typed attribute and one   *)
(* method whose markers must stay on them *)
ClassShapes(tier) ==
  { Shape("class", TRUE, f) : f \in { {}, {"pmiss"}, {"tuple"}, {"variadic"}, {"multi"}, {"multi", "pmiss"}, {"set", "setmulti"}, {"unknownvalue"},
                                       {"tuple", "@tpbound"}, {"set", "@tpbound"}, {"tuple", "@tpbound", "@invariant"},      \* an invariant bounded parameter: the stub shows the parameter without its bound
                                       {"multi", "@abc"},      \* the class also lists abc.ABC
                                       {"variadic", "pmiss", "@abconly"}, {"tuple", "@abconly"},   \* the class lists abc.ABC only: it is written without constructor, so the constructor's constructs need no marker
                                       {"multi", "@privbase"}, {"multi", "@privfirst"} } }   \* a private base with an inherited public method, after / before the public bases      \* "@tpbound": the construct sits in the bound of a type parameter
  \cup { Shape("class", FALSE, {"pmiss", "multi"}) }

Triples(S) == LET s == S IN { <<a, b, c>> : a \in s, b \in s, c \in s }
Universe(tier) ==
  { [cont |-> "module", decls |-> t] : t \in Triples(FunShapes(tier)) }
  \cup { [cont |-> "class-methods", decls |-> t] : t \in Triples(MethodShapes(tier)) }
  \cup { [cont |-> "class-attrs", decls |-> t] : t \in Triples(AttrShapes(tier)) }
  \cup { [cont |-> "module-classes", decls |-> t] : t \in Triples(ClassShapes(tier)) }
  \* functions and methods analysed with the NumPy docstring style: "@docset" is a parameter without hint whose type is a bare `set` in the
  \* docstring - a set type all the same; every triple with at least one such declaration among a few plain shapes
  \cup UNION { { [cont |-> c[1], decls |-> t]
                  : t \in { x \in Triples({ Shape(c[2], TRUE, f) : f \in { {"@docset"}, {}, {"set"}, {"pmiss"}, {"tuple"}, {"variadic"} } })
                           : \E j \in 1..3 : "@docset" \in x[j].f } }
                : c \in { <<"module-doc", "fun">>, <<"class-methods-doc", "method">> } }

VARIABLES sc, ip, toRaise, pending, todo, pc
vars == <<sc, ip, toRaise, pending, todo, pc>>

Init == /\ sc \in Universe(Tier)
        /\ ip = 0 /\ toRaise = {} /\ pending = {} /\ todo = <<>> /\ pc = "begin"

BeginModule == pc = "begin" /\ pending' = {} /\ pc' = "next" /\ UNCHANGED <<sc, ip, toRaise, todo>>
NextDecl ==
  /\ pc = "next" /\ ip < Len(sc.decls)
  /\ ip' = ip + 1
  /\ IF sc.decls[ip + 1].vis
       THEN toRaise' = sc.decls[ip + 1].f \cap Listed /\ pc' = "render" /\ UNCHANGED todo
       ELSE toRaise' = {} /\ pc' = "next" /\ todo' = Append(todo, {})      \* skipped: nothing is raised, nothing is written
  /\ UNCHANGED <<sc, pending>>
(* the two steps of the bookkeeping proper; the trace specification (C20_TodoTrace.tla) replays the real generator's adds and *)
(* flushes through them *)
DoRaise(k) == pending' = pending \cup {k}
DoFlush(out) == out = pending /\ pending' = {}
Raise(k) ==
  /\ pc = "render" /\ k \in toRaise
  /\ DoRaise(k) /\ toRaise' = toRaise \ {k}
  /\ UNCHANGED <<sc, ip, todo, pc>>
Flush ==
  /\ pc = "render" /\ toRaise = {}
  /\ DoFlush(pending) /\ todo' = Append(todo, pending)
  /\ pc' = "next"
  /\ UNCHANGED <<sc, ip, toRaise>>
EndModule == pc = "next" /\ ip = Len(sc.decls) /\ pc' = "done" /\ UNCHANGED <<sc, ip, toRaise, pending, todo>>
Next == BeginModule \/ NextDecl \/ (\E k \in Listed : Raise(k)) \/ Flush \/ EndModule
Spec == Init /\ [][Next]_vars /\ WF_vars(Next)

Inv_C20_Exact == \A d \in 1..Len(todo) : todo[d] = (IF sc.decls[d].vis THEN sc.decls[d].f \cap Listed ELSE {})
Inv_C20_NoLeak == pc \in {"next", "done"} => pending = {}
Inv_C20_PendingOnlyOwn == pc = "render" => pending \subseteq (sc.decls[ip].f \cap Listed)
Live_Done == <>(pc = "done")
Emit == pc = "done" => PrintT(ToJson([cont |-> sc.cont, decls |-> [ d \in 1..3 |-> [c |-> sc.decls[d].c, vis |-> sc.decls[d].vis, f |-> sc.decls[d].f] ]]))

(***************************************************************************)
(* Judging one observed declaration.                                       *)
(* obs = [missing, cont, shape: [c, vis, f], shown: set, todos: set, prev: set]        *)
(***************************************************************************)
ToSet(seq) == { seq[j] : j \in 1..Len(seq) }
Judge(obs) ==
  IF obs.missing
  THEN { [property |-> "C20", clause |-> "Exact", sig |-> obs.cont \o ":declaration-missing", expected |-> "declared", observed |-> "absent"] }
  ELSE
    LET f == ToSet(obs.shape.f)
        shown == ToSet(obs.shown)
        todos == ToSet(obs.todos) \cap Listed
        prev == ToSet(obs.prev)
        exp == (IF "@abconly" \in f THEN {} ELSE f \cap ScenarioKinds) \cup (shown \cap ShownKinds)
        miss == exp \ todos
        extra == todos \ exp
        tag == IF "@kwcall" \in f THEN ":default-is-a-call" ELSE IF "@poscall" \in f THEN ":default-is-a-constant" ELSE ""
    IN { [property |-> "C20", clause |-> "Exact", sig |-> obs.cont \o ":missing:" \o k \o tag,
          expected |-> ToString(exp), observed |-> ToString(todos)] : k \in miss }
       \cup
       { [property |-> "C20", clause |-> "Exact",
          sig |-> obs.cont \o ":extra:" \o k \o (IF k \in prev THEN ":carried-over-from-predecessor" ELSE "") \o tag,
          expected |-> ToString(exp), observed |-> ToString(todos)] : k \in extra }
=============================================================================
