------------------------------ MODULE C14_Trace ------------------------------
(* Trace validation for C14: chosen types, warning counts and WARN/IGNORE output pairs of real runs. *)
EXTENDS Naturals, Sequences, TLC, Json, IOUtils
R == INSTANCE Reconcile WITH sc <- 0, pc <- "", i <- 0, chosen <- <<>>, log <- <<>>
Obs == JsonDeserialize(IOEnv.OBS_FILE)
VARIABLES n, bad
TInit == n = 0 /\ bad = {}
TNext == /\ n < Len(Obs)
         /\ n' = n + 1
         /\ bad' = IF Obs[n + 1].kind = "pair" THEN R!JudgePair(Obs[n + 1].sc, Obs[n + 1].obs)
                   ELSE IF Obs[n + 1].kind = "twin" THEN R!JudgeTwin(Obs[n + 1].sc, Obs[n + 1].obs)
                   ELSE R!Judge(Obs[n + 1].sc, Obs[n + 1].obs)
TSpec == TInit /\ [][TNext]_<<n, bad>>
Report == bad = {} \/ PrintT(ToJson([id |-> Obs[n].id, bad |-> bad]))
AllConsumed == TLCGet("stats").diameter - 1 = Len(Obs)
=============================================================================
