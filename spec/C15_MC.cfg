SPECIFICATION Spec
CONSTANT Tier = "quick"
INVARIANT Inv_C15_Off
INVARIANT Inv_C15_On
INVARIANT Inv_C15_NeverRejectedHere
INVARIANT Inv_C15_OrderFree
INVARIANT Emit
CHECK_DEADLOCK FALSE
