------------------------------ MODULE Discover ------------------------------
(***************************************************************************)
(* C15 - the test-run flag alone controls whether test and docs            *)
(* directories are analysed.                                               *)
(*                                                                         *)
(* Discovery enumerates the Python files below the package root one by one *)
(* (action Visit, in any order), drops a file when the flag is off and one *)
(* of its *directory* segments is exactly test, tests or docs, and hands   *)
(* the rest to the analyser.  A tree is a set of file locations            *)
(* <<directory path, file stem>>.                                          *)
(***************************************************************************)
EXTENDS Naturals, Sequences, FiniteSets, TLC, Json

CONSTANTS Tier
DirNames == {"subdir", "test", "tests", "docs", "testing", "mytests", "docs_old", "test_"}
Filtered == {"test", "tests", "docs"}
\* "test__init__": a test module for a package file; its directory is a plain directory without an __init__.py of its own
Stems(depth) == IF depth = 2 THEN {"mod", "test_x", "tests", "docs"} ELSE IF depth = 1 THEN {"mod", "test_x", "test__init__"} ELSE {"mod", "test_x"}   \* never x.py next to a directory x/
Paths == { <<>> } \cup { <<a>> : a \in DirNames } \cup { <<a, b>> : a \in DirNames, b \in DirNames }
Locations == { <<p, s>> : p \in Paths, s \in {"mod", "test_x", "tests", "docs", "test__init__"} } 
LegalLoc(l) == l[2] \in Stems(Len(l[1]))
Excluded(l) == \E j \in 1..Len(l[1]) : l[1][j] \in Filtered
Keep == << <<>>, "keepmod" >>

Trees(tier) ==
  LET locs == { l \in Locations : LegalLoc(l) }
      ex == { l \in locs : Excluded(l) }
      small == { l \in locs : Len(l[1]) <= 1 }
  IN { { Keep, e } : e \in ex } \cup { { Keep, e, o } : e \in { x \in ex : Len(x[1]) = 1 }, o \in { x \in small : ~Excluded(x) /\ Len(x[1]) = 1 } }
     \cup { locs \cup { Keep } }                                   \* the whole universe as one tree

VARIABLES tree, flag, todo, work, pc
vars == <<tree, flag, todo, work, pc>>
Init == tree \in Trees(Tier) /\ flag \in BOOLEAN /\ todo = tree /\ work = {} /\ pc = "discover"
Visit(l) ==
  /\ pc = "discover" /\ l \in todo
  /\ (Cardinality(tree) <= 3 \/ l = CHOOSE x \in todo : TRUE)    \* every visiting order for small trees; one fixed order for the big tree
  /\ work' = IF ~flag /\ Excluded(l) THEN work ELSE work \cup {l}
  /\ todo' = todo \ {l} /\ UNCHANGED <<tree, flag, pc>>
Finish == pc = "discover" /\ todo = {} /\ pc' = (IF work = {} THEN "rejected" ELSE "analysed") /\ UNCHANGED <<tree, flag, todo, work>>
Next == (\E l \in Locations \cup {Keep} : Visit(l)) \/ Finish
Spec == Init /\ [][Next]_vars /\ WF_vars(Next)

Inv_C15_Off == (pc = "analysed" /\ ~flag) => work = { l \in tree : ~Excluded(l) }
Inv_C15_On == (pc = "analysed" /\ flag) => work = tree
Inv_C15_NeverRejectedHere == pc # "rejected"            \* every tree has an included file
Inv_C15_OrderFree == pc = "analysed" => work = { l \in tree : flag \/ ~Excluded(l) }   \* whatever the visiting order was
Live_Done == <>(pc = "analysed")
Emit == (pc = "analysed" /\ flag) => PrintT(ToJson([files |-> { [path |-> l[1], stem |-> l[2]] : l \in tree }]))

(***************************************************************************)
(* Judging the two real runs of one tree: one observation per file.        *)
(* obs = [path, stem, jsonOff, jsonOn, stubOff, stubOn, digestOff, digestOn, hasDecl]   *)
(***************************************************************************)
Look(p) == IF \E j \in 1..Len(p) : p[j] \in Filtered THEN "filtered-dir" ELSE IF p = <<>> THEN "root" ELSE "lookalike-or-plain-dir"
(* A private module of the package root whose class only the package files of filtered directories re-export: without the flag those   *)
(* files contribute nothing, a re-export included.  obs = [role, stubOff, publicOff]                                                     *)
JudgeHidden(o) ==
  IF o.stubOff \/ o.publicOff
  THEN { [property |-> "C15", clause |-> "Off", sig |-> "re-export-in-filtered-package-counts-without-flag", expected |-> "private, no stub", observed |-> ToString(<<o.stubOff, o.publicOff>>)] }
  ELSE {}
JudgeFile(o) ==
  LET ex == \E j \in 1..Len(o.path) : o.path[j] \in Filtered
      where == (IF Len(o.path) = 0 THEN "root" ELSE "depth" \o ToString(Len(o.path))) \o ":" \o Look(o.path) \o ":" \o o.stem
  IN (IF ex /\ (o.jsonOff \/ o.stubOff) THEN { [property |-> "C15", clause |-> "Off", sig |-> "analysed-despite-filter:" \o where, expected |-> "skipped", observed |-> "analysed"] } ELSE {})
  \cup (IF ~ex /\ ~(o.jsonOff /\ o.stubOff) THEN { [property |-> "C15", clause |-> "Off", sig |-> "wrongly-skipped:" \o where, expected |-> "analysed", observed |-> "skipped"] } ELSE {})
  \cup (IF ~(o.jsonOn /\ o.stubOn) THEN { [property |-> "C15", clause |-> "On", sig |-> "skipped-with-flag:" \o where, expected |-> "analysed", observed |-> "skipped"] } ELSE {})
  \cup (IF ~ex /\ o.stubOff /\ o.stubOn /\ o.digestOff # o.digestOn THEN { [property |-> "C15", clause |-> "Neutral", sig |-> "stub-changes-with-flag:" \o where, expected |-> o.digestOff, observed |-> o.digestOn] } ELSE {})
=============================================================================
