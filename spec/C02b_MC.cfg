SPECIFICATION Spec
CONSTANT MaxLen = 3
INVARIANT Inv_C02_StringClosed
INVARIANT Inv_C02_DocClosed
INVARIANT Emit
CHECK_DEADLOCK FALSE
