------------------------------ MODULE C06_Trace ------------------------------
(* Trace validation for C06: every observed signature of a real run is judged against Signature!Expected*. *)
EXTENDS Naturals, Sequences, TLC, Json, IOUtils
S == INSTANCE Signature WITH MaxP <- 0, sc <- 0, pc <- "", i <- 0, api <- <<>>, stub <- <<>>
Obs == JsonDeserialize(IOEnv.OBS_FILE)
VARIABLES n, bad
TInit == n = 0 /\ bad = {}
TNext == /\ n < Len(Obs)
         /\ n' = n + 1
         /\ bad' = S!Judge(Obs[n + 1].sc, Obs[n + 1].obs)
TSpec == TInit /\ [][TNext]_<<n, bad>>
Report == bad = {} \/ PrintT(ToJson([id |-> Obs[n].id, bad |-> bad]))
AllConsumed == TLCGet("stats").diameter - 1 = Len(Obs)
=============================================================================
