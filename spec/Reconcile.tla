------------------------------ MODULE Reconcile ------------------------------
(***************************************************************************)
(* C14 - the type-source preference settles only real conflicts; warnings  *)
(* never alter the output.                                                 *)
(*                                                                         *)
(* A slot (one parameter, or the result) has a type hint and a docstring   *)
(* type, each possibly absent.  The analyser reconciles the slots of a     *)
(* function one after the other (actions ReconcileParam / ReconcileResult) *)
(* and appends to the log.                                                 *)
(***************************************************************************)
EXTENDS Naturals, Sequences, FiniteSets, TLC, Json

P == INSTANCE PyTypes WITH Tier <- "quick", term <- 0, phase <- ""

Hints == {"none", "int", "str"}
Docs == {"none", "int", "str", "listint"}
Slots == { [hint |-> h, doc |-> d] : h \in Hints, d \in Docs }
Styles == {"GOOGLE", "NUMPYDOC", "REST"}
Prefs == {"CODE", "DOCSTRING"}
Warns == {"WARN", "IGNORE"}

Usable(d) == d \notin {"none", "free", "absent"}          \* does the docstring give a type for this slot?
Meaning(t) ==
  CASE t = "int" -> { P!Atom("Builtin", "Int", <<>>) }
    [] t = "str" -> { P!Atom("Builtin", "String", <<>>) }
    [] t = "listint" -> { P!Atom("List", "", << { P!Atom("Builtin", "Int", <<>>) } >>) }
    [] t = "none" -> { P!Atom("Missing", "", <<>>) }

Chosen(slot, pref) ==
  IF ~Usable(slot.doc) THEN slot.hint
  ELSE IF slot.hint \in {"none", "absent"} THEN slot.doc
  ELSE IF pref = "CODE" THEN slot.hint ELSE slot.doc
Conflict(slot) == slot.hint \notin {"none", "absent"} /\ Usable(slot.doc) /\ slot.hint # slot.doc

(* a second result (tuple hints, NumPy style only, the one style with several result entries); its docstring entry may carry a type
   that cannot be understood ("free": free text) - then only the hint gives a type for that position *)
Absent == [hint |-> "absent", doc |-> "absent"]
TupleSlots == { [hint |-> h, doc |-> d] : h \in {"int", "str"}, d \in {"int", "str", "free"} }
(* a third result that only the docstring knows (the hint is a pair): a type given by one source only is used, so it is a result, too *)
DocOnly == [hint |-> "absent", doc |-> "listint"]
Universe(style, pref, warn) ==
  { [params |-> ps, res |-> r, res2 |-> Absent, res3 |-> Absent, unnamed |-> FALSE, style |-> style, pref |-> pref, warn |-> warn]
      : ps \in { <<>> } \cup { <<a>> : a \in Slots } \cup { <<a, b>> : a \in Slots, b \in Slots }, r \in Slots }
  \cup (IF style = "NUMPYDOC"
        THEN { [params |-> <<>>, res |-> r, res2 |-> r2, res3 |-> r3, unnamed |-> FALSE, style |-> style, pref |-> pref, warn |-> warn]
               : r \in TupleSlots, r2 \in TupleSlots, r3 \in { Absent, DocOnly } }
             \* the same two results documented without names (entries are then told apart by their position only)
             \cup { [params |-> <<>>, res |-> r, res2 |-> r2, res3 |-> Absent, unnamed |-> TRUE, style |-> style, pref |-> pref, warn |-> warn]
                    : r \in { x \in TupleSlots : x.doc # "free" }, r2 \in { x \in TupleSlots : x.doc # "free" } }
        ELSE {})

VARIABLES sc, pc, i, chosen, log
vars == <<sc, pc, i, chosen, log>>
AllScenarios(dummy) == UNION { Universe(st, p, w) : st \in Styles, p \in Prefs, w \in Warns }
Init == sc \in AllScenarios(0) /\ pc = "params" /\ i = 1 /\ chosen = <<>> /\ log = <<>>

ReconcileParam ==
  /\ pc = "params" /\ i <= Len(sc.params)
  /\ chosen' = Append(chosen, Chosen(sc.params[i], sc.pref))
  /\ log' = IF Conflict(sc.params[i]) /\ sc.warn = "WARN" THEN Append(log, "param") ELSE log
  /\ i' = i + 1 /\ UNCHANGED <<sc, pc>>
ParamsDone == pc = "params" /\ i > Len(sc.params) /\ pc' = "result" /\ UNCHANGED <<sc, i, chosen, log>>
ReconcileResult ==
  /\ pc = "result"
  /\ chosen' = Append(chosen, Chosen(sc.res, sc.pref))
  /\ log' = (IF Conflict(sc.res) /\ sc.warn = "WARN" THEN Append(log, "result") ELSE log)
             \o (IF Conflict(sc.res2) /\ sc.warn = "WARN" THEN << "result2" >> ELSE <<>>)
  /\ pc' = "done" /\ UNCHANGED <<sc, i>>
Next == ReconcileParam \/ ParamsDone \/ ReconcileResult
Spec == Init /\ [][Next]_vars /\ WF_vars(Next)

ExpectedWarnings(s) ==
  IF s.warn = "IGNORE" THEN 0
  ELSE Cardinality({ k \in 1..Len(s.params) : Conflict(s.params[k]) }) + (IF Conflict(s.res) THEN 1 ELSE 0) + (IF Conflict(s.res2) THEN 1 ELSE 0)

Inv_C14_Type ==
  pc = "done" => /\ \A k \in 1..Len(sc.params) :
                      /\ (sc.params[k].doc = "none" => chosen[k] = sc.params[k].hint)
                      /\ (sc.params[k].hint = "none" => chosen[k] = sc.params[k].doc)
                      /\ (Conflict(sc.params[k]) => chosen[k] = IF sc.pref = "CODE" THEN sc.params[k].hint ELSE sc.params[k].doc)
                 /\ Len(chosen) = Len(sc.params) + 1
Inv_C14_WarnBag == pc = "done" => Len(log) = ExpectedWarnings(sc)
Inv_C14_PrefIrrelevantWithoutConflict ==   \* the preference matters only for real conflicts
  pc = "done" => \A k \in 1..Len(sc.params) : ~Conflict(sc.params[k]) => Chosen(sc.params[k], "CODE") = Chosen(sc.params[k], "DOCSTRING")
Inv_C14_WarnNeutral ==                      \* the chosen types are a function of (slots, preference) only
  pc = "done" => chosen = [ k \in 1..(Len(sc.params) + 1) |-> IF k <= Len(sc.params) THEN Chosen(sc.params[k], sc.pref) ELSE Chosen(sc.res, sc.pref) ]
Live_Done == <>(pc = "done")
Emit == pc = "done" => PrintT(ToJson(sc))

(***************************************************************************)
(* Judging a real run.                                                     *)
(* obs = [missing, ptys: Seq type term, rtys: Seq type term, nwarn: Nat]   *)
(* pair events: obs = [a, b] digests of the output under WARN and IGNORE.  *)
(***************************************************************************)
SlotSig(slot) == "hint-" \o slot.hint \o ":doc-" \o slot.doc
Judge(s, obs) ==
  IF obs.missing THEN { [property |-> "C14", clause |-> "Type", sig |-> "declaration-missing", expected |-> "declared", observed |-> "absent"] }
  ELSE
    LET op == [ k \in 1..Len(obs.ptys) |-> P!ObsCanon(obs.ptys[k]) ]
        or == [ k \in 1..Len(obs.rtys) |-> P!ObsCanon(obs.rtys[k]) ]
        ep == [ k \in 1..Len(s.params) |-> Meaning(Chosen(s.params[k], s.pref)) ]
        er == IF s.res2 = Absent THEN (IF Chosen(s.res, s.pref) = "none" THEN <<>> ELSE << Meaning(Chosen(s.res, s.pref)) >>)
              ELSE << Meaning(Chosen(s.res, s.pref)), Meaning(Chosen(s.res2, s.pref)) >> \o (IF s.res3 = Absent THEN <<>> ELSE << Meaning(Chosen(s.res3, s.pref)) >>)
    IN
      (IF Len(op) # Len(ep) THEN { [property |-> "C14", clause |-> "Type", sig |-> "param-count", expected |-> ToString(ep), observed |-> ToString(op)] }
       ELSE { [property |-> "C14", clause |-> "Type", sig |-> "param:" \o s.style \o ":" \o s.pref \o ":" \o SlotSig(s.params[k]),
               expected |-> ToString(ep[k]), observed |-> ToString(op[k])] : k \in { k \in 1..Len(ep) : op[k] # ep[k] } })
      \cup
      (IF or # er THEN { [property |-> "C14", clause |-> "Type",
                           sig |-> "result:" \o s.style \o ":" \o s.pref \o ":"
                                   \o (IF s.res2 # Absent THEN (IF s.res3 # Absent THEN "two-results-and-a-documented-third:" ELSE IF s.unnamed THEN "two-unnamed-results:" ELSE "two-results:") \o s.res.doc \o "+" \o s.res2.doc
                                       ELSE IF s.res.hint = "none" THEN "doc-only-" \o s.res.doc ELSE IF Conflict(s.res) THEN "conflict" ELSE "agree"),
                           expected |-> ToString(er), observed |-> ToString(or)] } ELSE {})
      \cup
      (IF obs.nwarn # ExpectedWarnings(s)
       THEN { [property |-> "C14", clause |-> "WarnBag",
               sig |-> s.style \o ":" \o s.warn \o ":" \o (IF obs.nwarn > ExpectedWarnings(s) THEN "spurious" ELSE "missing")
                       \o ":params-" \o (IF \E k \in 1..Len(s.params) : Conflict(s.params[k]) THEN "conflict" ELSE "agree")
                       \o ":result-" \o (IF Conflict(s.res) \/ Conflict(s.res2) THEN "conflict" ELSE "agree"),
               expected |-> ToString(ExpectedWarnings(s)), observed |-> ToString(obs.nwarn)] }
       ELSE {})

(* Two modules of one package that each define a class Config and document a parameter with the type text "Config": in either module  *)
(* the text names that module's own class - for the hinted parameter (no conflict, no warning) and for the one only the docstring types. *)
(* obs = [mod, ptypes: Seq qualified names (package prefix removed), imported: Seq names imported by the stub, nwarn]                    *)
JudgeTwin(s, obs) ==
  LET own == obs.mod \o ".Config" IN
     { [property |-> "C14", clause |-> "Type", sig |-> "same-type-text-in-two-modules:" \o s.style \o ":" \o s.pref \o ":" \o (IF j = 1 THEN "hinted" ELSE "docstring-only"),
        expected |-> own, observed |-> obs.ptypes[j]] : j \in { j \in 1..Len(obs.ptypes) : obs.ptypes[j] # own } }
  \cup (IF obs.nwarn = 0 THEN {} ELSE { [property |-> "C14", clause |-> "WarnBag", sig |-> "same-type-text-in-two-modules:" \o s.style \o ":spurious-warning",
                                           expected |-> "0", observed |-> ToString(obs.nwarn)] })
  \cup { [property |-> "C14", clause |-> "Type", sig |-> "same-type-text-in-two-modules:" \o s.style \o ":own-class-imported", expected |-> "no import", observed |-> obs.imported[j]]
          : j \in { j \in 1..Len(obs.imported) : obs.imported[j] = "Config" } }

JudgePair(s, obs) ==
  IF obs.a = obs.b THEN {}
  ELSE { [property |-> "C14", clause |-> "WarnNeutral", sig |-> "output-differs:" \o s.style \o ":" \o s.pref,
          expected |-> obs.a, observed |-> obs.b] }
=============================================================================
