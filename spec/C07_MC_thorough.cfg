SPECIFICATION Spec
CONSTANT Tier = "thorough"
INVARIANT Inv_C07_NoneHasNoResults
INVARIANT Inv_C07_TupleSplits
INVARIANT Inv_C07_OtherIsOne
INVARIANT Inv_C07_Cover
INVARIANT Inv_C07_NoReturnNoResult
INVARIANT Inv_C07_NamesDistinct
INVARIANT Emit
PROPERTY Live_Done
CHECK_DEADLOCK FALSE
