------------------------------ MODULE C07_Trace ------------------------------
(* Trace validation for C07: result lists of a real run judged against Results.tla. *)
EXTENDS Naturals, Sequences, TLC, Json, IOUtils
R == INSTANCE Results WITH Tier <- "quick", sc <- 0, pc <- "", types <- <<>>, names <- <<>>
Obs == JsonDeserialize(IOEnv.OBS_FILE)
VARIABLES n, bad
TInit == n = 0 /\ bad = {}
TNext == /\ n < Len(Obs)
         /\ n' = n + 1
         /\ bad' = R!Judge(Obs[n + 1].sc, Obs[n + 1].obs)
TSpec == TInit /\ [][TNext]_<<n, bad>>
Report == bad = {} \/ PrintT(ToJson([id |-> Obs[n].id, bad |-> bad]))
AllConsumed == TLCGet("stats").diameter - 1 = Len(Obs)
=============================================================================
