SPECIFICATION Spec
CONSTANT MaxP = 4
INVARIANT Inv_C06_List
INVARIANT Inv_C06_Defaults
INVARIANT Inv_C06_Kinds
INVARIANT Inv_C06_ReceiverOnlyFirst
INVARIANT Inv_C06_OptionalIffDefault
INVARIANT Inv_DoneAgrees
INVARIANT Emit
PROPERTY Live_Terminates
CHECK_DEADLOCK FALSE
