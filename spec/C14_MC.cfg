SPECIFICATION Spec
INVARIANT Inv_C14_Type
INVARIANT Inv_C14_WarnBag
INVARIANT Inv_C14_PrefIrrelevantWithoutConflict
INVARIANT Inv_C14_WarnNeutral
INVARIANT Emit
PROPERTY Live_Done
CHECK_DEADLOCK FALSE
