SPECIFICATION Spec
CONSTANT Tier = "quick"
INVARIANT Inv_C10_NoClobber
INVARIANT Inv_C10_FirstIsCreate
INVARIANT Inv_C10_StubVsForeign
INVARIANT Inv_C10_AllWritten
PROPERTY Live_Done
CHECK_DEADLOCK FALSE
