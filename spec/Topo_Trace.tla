------------------------------ MODULE Topo_Trace ------------------------------
(* Trace validation for the topology universe U1: occurrences, homes and publicity flags of real runs (C03, C04). *)
EXTENDS Naturals, Sequences, TLC, Json, IOUtils
P == INSTANCE Package WITH Tier <- "quick", sc <- 0, pc <- "", pub <- {}, occ <- {}
Obs == JsonDeserialize(IOEnv.OBS_FILE)
VARIABLES n, bad
TInit == n = 0 /\ bad = {}
TNext == /\ n < Len(Obs)
         /\ n' = n + 1
         /\ bad' = P!Judge(Obs[n + 1].sc, Obs[n + 1].obs)
TSpec == TInit /\ [][TNext]_<<n, bad>>
Report == bad = {} \/ PrintT(ToJson([id |-> Obs[n].id, bad |-> bad]))
AllConsumed == TLCGet("stats").diameter - 1 = Len(Obs)
=============================================================================
