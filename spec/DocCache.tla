------------------------------ MODULE DocCache ------------------------------
(***************************************************************************)
(* C13 - docstring text reaches the right element intact, whatever the     *)
(* style.  Part (i): the one-entry docstring cache is transparent.         *)
(*                                                                         *)
(* The parser keeps the docstring of the last qualified name it was asked  *)
(* for.  A lookup consults one docstring, or two (constructor parameters   *)
(* and attributes fall back from the class to the constructor in NumPy     *)
(* style).  Every consultation goes through Consult(q).  A behaviour is a  *)
(* sequence of lookups in any order - the order in which the analyser      *)
(* happens to visit functions, classes and constructors.                   *)
(***************************************************************************)
EXTENDS Naturals, Sequences, FiniteSets, TLC, Json

CONSTANTS MaxLen

Classes == {"CA", "CB"}
Bare == {"CC"}          \* a class without docstring and without constructor, with an attribute named like CA's
Funcs == {"fa", "fb"}
Owners == Classes \cup Funcs \cup { c \o ".meth" : c \in Classes } \cup { c \o ".__init__" : c \in Classes }
L(kind, owner, name) == [kind |-> kind, owner |-> owner, name |-> name]
Lookups ==
  { L("cls", c, "") : c \in Classes \cup Bare }
  \cup { L("attr", c, "at") : c \in Bare }
  \cup { L("fun", o, "") : o \in Owners \ Classes }
  \cup { L("par", f, "p") : f \in Funcs \cup { c \o ".meth" : c \in Classes } }
  \cup { L("par", c \o ".__init__", "x") : c \in Classes }
  \cup { L("attr", c, "at") : c \in Classes }
  \cup { L("res", f, "") : f \in Funcs \cup { c \o ".meth" : c \in Classes } }

EndsWithInit(q) == Len(q) >= 8 /\ SubSeq(q, Len(q) - 7, Len(q)) = "__init__"
ClassOf(q) == SubSeq(q, 1, 2)
(* which docstrings a lookup consults, in order *)
Consults(l) ==
  CASE l.kind = "cls" -> <<>>                                   \* read directly, not through the cache
    [] l.kind \in {"fun", "res"} -> << l.owner >>
    [] l.kind = "par" -> IF EndsWithInit(l.owner) THEN << ClassOf(l.owner), l.owner >> ELSE << l.owner >>
    [] l.kind = "attr" -> << l.owner, l.owner \o ".__init__" >>

VARIABLES key, doc, hist, answerFrom
vars == <<key, doc, hist, answerFrom>>
Init == key = "" /\ doc = "" /\ hist = <<>> /\ answerFrom = <<>>

RECURSIVE ConsultAll(_, _, _)
\* result of consulting the docstrings qs one after the other starting from cache (k, d): <<key, doc, docs seen>>
ConsultAll(qs, k, d) ==
  IF qs = <<>> THEN <<k, d, <<>>>>
  ELSE LET q == Head(qs)
           k2 == q
           d2 == IF k # q \/ EndsWithInit(q) THEN q ELSE d        \* a hit returns the cached docstring, a miss loads q's own
           rest == ConsultAll(Tail(qs), k2, d2)
       IN << rest[1], rest[2], << d2 >> \o rest[3] >>
Lookup(l) ==
  /\ Len(hist) < MaxLen
  /\ LET r == ConsultAll(Consults(l), key, doc) IN
       /\ key' = r[1] /\ doc' = r[2] /\ answerFrom' = r[3]
  /\ hist' = Append(hist, l)
Next == \E l \in Lookups : Lookup(l)
Spec == Init /\ [][Next]_vars

Inv_C13_CacheCoherent == doc = key                       \* the cached docstring is always the one of the cached name
Inv_C13_Transparent == hist # <<>> => answerFrom = Consults(hist[Len(hist)])   \* every lookup sees exactly the docstrings it asked for
Emit == Len(hist) = MaxLen => PrintT(ToJson(hist))

(***************************************************************************)
(* Judging a replay on the real parser.                                    *)
(* obs = [style, steps: Seq [l: lookup, toks: Seq of tokens found in the answer]]      *)
(* Tokens: every documented item has a unique token tok_<owner>_<item>.    *)
(***************************************************************************)
Und(o) == IF Len(o) > 2 /\ SubSeq(o, 3, 3) = "." THEN SubSeq(o, 1, 2) \o "_" \o SubSeq(o, 4, Len(o)) ELSE o
OwnToken(l) ==
  CASE l.kind = "cls" -> "tok_" \o l.owner \o "_desc"
    [] l.kind = "fun" -> "tok_" \o Und(l.owner) \o "_desc"
    [] l.kind = "par" -> "tok_" \o Und(l.owner) \o "_" \o l.name
    [] l.kind = "attr" -> "tok_" \o l.owner \o "_" \o l.name
    [] l.kind = "res" -> "tok_" \o Und(l.owner) \o "_res"
(* is the own token determined by the statement?  constructors without own docstring have no description; a parameter documented
   only in the constructor's docstring is found through the NumPy fallback only *)
Documented(l, style) ==
  CASE l.kind = "fun" /\ l.owner = "CA.__init__" -> FALSE
    [] l.kind = "par" /\ l.owner = "CB.__init__" -> style = "NUMPYDOC"
    [] l.kind = "attr" /\ l.owner = "CB" -> style = "NUMPYDOC"
    [] l.owner \in Bare -> FALSE
    [] OTHER -> TRUE
ToSet(seq) == { seq[j] : j \in 1..Len(seq) }
(* Trace of the real cache during a whole analysis: events <<qname asked for, owner of the docstring that was returned>>.   *)
(* Replaying the events through Consult, the machine's cached docstring is always the one of the name asked for; the        *)
(* implementation must have returned that one (or nothing, when the element has no docstring).                              *)
CacheBad(evs) ==
  { [property |-> "C13", clause |-> "Transparent",
     sig |-> "cache-returned-foreign-docstring:" \o (IF j > 1 /\ evs[j][2] = evs[j - 1][1] THEN "of-previous-lookup" ELSE "other"),
     expected |-> evs[j][1], observed |-> evs[j][2]]
    : j \in { j \in 1..Len(evs) : evs[j][2] # evs[j][1] /\ evs[j][2] \notin {"@none", "@own"} } }     \* "@own": parsed from the declaration's own text
JudgeCache(obs) == CacheBad(obs.events)
Judge(obs) ==
  UNION { LET l == obs.steps[j].l
              toks == ToSet(obs.steps[j].toks)
              own == OwnToken(l)
              prev == IF j = 1 THEN "first" ELSE obs.steps[j - 1].l.kind \o "(" \o (IF obs.steps[j - 1].l.owner = l.owner THEN "same-owner" ELSE
                          IF Len(l.owner) > 3 /\ Len(obs.steps[j - 1].l.owner) > 3 /\ SubSeq(obs.steps[j - 1].l.owner, 3, Len(obs.steps[j - 1].l.owner)) = SubSeq(l.owner, 3, Len(l.owner))
                          THEN "same-short-name" ELSE "other") \o ")"
          IN (IF Documented(l, obs.style) /\ own \notin toks
              THEN { [property |-> "C13", clause |-> "Transparent", sig |-> "lost:" \o l.kind \o ":after-" \o prev, expected |-> own, observed |-> ToString(toks)] } ELSE {})
             \cup (IF toks \ {own} # {}
              THEN { [property |-> "C13", clause |-> "Transparent", sig |-> "foreign-text:" \o l.kind \o ":after-" \o prev, expected |-> own, observed |-> ToString(toks)] } ELSE {})
        : j \in 1..Len(obs.steps) }
=============================================================================
