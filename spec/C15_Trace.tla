------------------------------ MODULE C15_Trace ------------------------------
(* Trace validation for C15: per file, what the runs with and without -tr produced. *)
EXTENDS Naturals, Sequences, TLC, Json, IOUtils
D == INSTANCE Discover WITH Tier <- "quick", tree <- {}, flag <- FALSE, todo <- {}, work <- {}, pc <- ""
Obs == JsonDeserialize(IOEnv.OBS_FILE)
VARIABLES n, bad
TInit == n = 0 /\ bad = {}
TNext == /\ n < Len(Obs)
         /\ n' = n + 1
         /\ bad' = IF "role" \in DOMAIN Obs[n + 1].obs THEN D!JudgeHidden(Obs[n + 1].obs) ELSE D!JudgeFile(Obs[n + 1].obs)
TSpec == TInit /\ [][TNext]_<<n, bad>>
Report == bad = {} \/ PrintT(ToJson([id |-> Obs[n].id, bad |-> bad]))
AllConsumed == TLCGet("stats").diameter - 1 = Len(Obs)
=============================================================================
