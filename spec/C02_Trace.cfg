SPECIFICATION TSpec
INVARIANT Report
CHECK_DEADLOCK FALSE
