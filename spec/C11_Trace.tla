------------------------------ MODULE C11_Trace ------------------------------
(* Trace validation for C11: references and imports of all stub files of a real run, resolved against each other. *)
EXTENDS Naturals, Sequences, TLC, Json, IOUtils
C == INSTANCE Closure WITH Tier <- "quick", sc <- 0, files <- {}, pc <- ""
Obs == JsonDeserialize(IOEnv.OBS_FILE)
VARIABLES n, bad
TInit == n = 0 /\ bad = {}
TNext == /\ n < Len(Obs)
         /\ n' = n + 1
         /\ bad' = C!JudgeRun(Obs[n + 1].obs)
TSpec == TInit /\ [][TNext]_<<n, bad>>
Report == bad = {} \/ PrintT(ToJson([id |-> Obs[n].id, bad |-> bad]))
AllConsumed == TLCGet("stats").diameter - 1 = Len(Obs)
=============================================================================
