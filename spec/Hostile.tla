------------------------------- MODULE Hostile -------------------------------
(***************************************************************************)
(* C02, producer side: string literals and documentation comments built    *)
(* from hostile text stay closed.                                          *)
(*                                                                         *)
(* Text is a sequence of symbols.  For string literals (defaults, literal   *)
(* types) the producer escapes DQ and BS (Escape); the Safe-DS string       *)
(* scanner (ScanString) must then consume exactly the produced characters.  *)
(* For documentation the producer must not let the text close the comment  *)
(* (CC = star-slash) early.                                                *)
(***************************************************************************)
EXTENDS Naturals, Sequences, FiniteSets, TLC, Json
CONSTANTS MaxLen
StrSyms == {"a", "DQ", "SQ", "BS", "NL", "LB"}
DocSyms == {"a", "NL", "CC", "OC", "AT", "ST"}
RECURSIVE Seqs(_, _)
Seqs(S, n) == IF n = 0 THEN { <<>> } ELSE LET p == Seqs(S, n - 1) IN p \cup { Append(s, x) : s \in { q \in p : Len(q) = n - 1 }, x \in S }

RECURSIVE Escape(_)
Escape(s) == IF s = <<>> THEN <<>>
             ELSE (IF Head(s) \in {"DQ", "BS"} THEN << "BS", Head(s) >> ELSE << Head(s) >>) \o Escape(Tail(s))
(* scanner of a string body: returns the position of the closing quote in `body \o <<DQ>>`, or 0 for a lexical error *)
RECURSIVE Scan(_, _)
Scan(cs, i) ==
  IF i > Len(cs) THEN 0
  ELSE IF cs[i] = "DQ" THEN i
  ELSE IF cs[i] = "BS" THEN (IF i + 1 <= Len(cs) /\ cs[i + 1] \in {"DQ", "BS", "SQ", "LB"} THEN Scan(cs, i + 2) ELSE 0)
  ELSE Scan(cs, i + 1)
RECURSIVE SafeDoc(_)
SafeDoc(s) == IF s = <<>> THEN <<>> ELSE (IF Head(s) = "CC" THEN << "ST", "a" >> ELSE << Head(s) >>) \o SafeDoc(Tail(s))   \* "*/" must not survive verbatim

VARIABLES kind, text, phase
vars == <<kind, text, phase>>
Init == \/ (kind = "string" /\ text \in Seqs(StrSyms, MaxLen) /\ phase = "raw")
        \/ (kind = "doc" /\ text \in Seqs(DocSyms, MaxLen) /\ phase = "raw")
Produce == phase = "raw" /\ phase' = "produced" /\ UNCHANGED <<kind, text>>
Next == Produce
Spec == Init /\ [][Next]_vars
Inv_C02_StringClosed == kind = "string" => Scan(Append(Escape(text), "DQ"), 1) = Len(Escape(text)) + 1
Inv_C02_DocClosed == kind = "doc" => \A j \in 1..Len(SafeDoc(text)) : SafeDoc(text)[j] # "CC"
Emit == phase = "produced" => PrintT(ToJson([kind |-> kind, text |-> text]))
=============================================================================
