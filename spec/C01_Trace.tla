------------------------------ MODULE C01_Trace ------------------------------
(* Trace validation for C01: the outcome of every real run. *)
EXTENDS Naturals, Sequences, TLC, Json, IOUtils
P == INSTANCE Pipeline WITH Tier <- "quick", feats <- {}, opts <- 0, pc <- "", todo <- {}
Obs == JsonDeserialize(IOEnv.OBS_FILE)
VARIABLES n, bad
TInit == n = 0 /\ bad = {}
TNext == /\ n < Len(Obs)
         /\ n' = n + 1
         /\ bad' = P!JudgeRun(Obs[n + 1].obs)
TSpec == TInit /\ [][TNext]_<<n, bad>>
Report == bad = {} \/ PrintT(ToJson([id |-> Obs[n].id, bad |-> bad]))
AllConsumed == TLCGet("stats").diameter - 1 = Len(Obs)
=============================================================================
