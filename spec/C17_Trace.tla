------------------------------ MODULE C17_Trace ------------------------------
(* Trace validation for C17: member lists and sub clauses of public classes of real runs. *)
EXTENDS Naturals, Sequences, TLC, Json, IOUtils
H == INSTANCE Inherit WITH Tier <- "quick", sc <- 0, cur <- 0, work <- <<>>, defined <- {}, shown <- {}, pc <- ""
Obs == JsonDeserialize(IOEnv.OBS_FILE)
VARIABLES n, bad
TInit == n = 0 /\ bad = {}
TNext == /\ n < Len(Obs)
         /\ n' = n + 1
         /\ bad' = H!Judge(Obs[n + 1].sc, Obs[n + 1].obs)
TSpec == TInit /\ [][TNext]_<<n, bad>>
Report == bad = {} \/ PrintT(ToJson([id |-> Obs[n].id, bad |-> bad]))
AllConsumed == TLCGet("stats").diameter - 1 = Len(Obs)
=============================================================================
