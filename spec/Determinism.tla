------------------------------ MODULE Determinism ------------------------------
(***************************************************************************)
(* C08 - the output is a deterministic function of package contents and    *)
(* options.                                                                *)
(*                                                                         *)
(* The environment of a run: the order in which every unordered collection *)
(* is iterated (string-hash seed, object addresses), the order in which    *)
(* the file system enumerates files, the working directory, the spelling   *)
(* of the paths, the repetition.  The pipeline has two kinds of places     *)
(* where an iteration order is consumed:                                   *)
(*   Choose - pick one candidate (the shortest re-exporting package, the   *)
(*            alias target defined in this module): the design picks the   *)
(*            minimum of a *total* order (depth, then id);                 *)
(*   Emit   - write out a collection (imports, markers, union members,     *)
(*            type variables, foreign classes, JSON lists): the design     *)
(*            sorts before writing.                                        *)
(* TLC checks that both are independent of the iteration order for every   *)
(* candidate set of up to three elements and every permutation.            *)
(***************************************************************************)
EXTENDS Naturals, Sequences, FiniteSets, TLC, Json

CONSTANTS Seeds, Globs
Cands == { [depth |-> d, id |-> i] : d \in 1..2, i \in 1..3 }
CandSets == { S \in SUBSET Cands : Cardinality(S) \in 1..3 /\ \A a, b \in S : a.id = b.id => a = b }
Perms(S) == { p \in [1..Cardinality(S) -> S] : \A i, j \in 1..Cardinality(S) : i # j => p[i] # p[j] }
Less(a, b) == a.depth < b.depth \/ (a.depth = b.depth /\ a.id < b.id)        \* total

VARIABLES cset, order, k, best, emitted
vars == <<cset, order, k, best, emitted>>
Init == cset \in CandSets /\ order \in Perms(cset) /\ k = 1 /\ best = order[1] /\ emitted = <<>>
Visit ==
  /\ k <= Len(order)
  /\ best' = IF Less(order[k], best) THEN order[k] ELSE best
  /\ emitted' = LET x == order[k]                       \* insertion into a sorted sequence
                    pos == Cardinality({ j \in 1..Len(emitted) : Less(emitted[j], x) })
                IN SubSeq(emitted, 1, pos) \o <<x>> \o SubSeq(emitted, pos + 1, Len(emitted))
  /\ k' = k + 1 /\ UNCHANGED <<cset, order>>
Next == Visit
Spec == Init /\ [][Next]_vars /\ WF_vars(Next)
Done == k > Len(order)
Min(S) == CHOOSE a \in S : \A b \in S : a = b \/ Less(a, b)
Inv_C08_ChooseOrderFree == Done => best = Min(cset)
Inv_C08_EmitOrderFree == Done => /\ { emitted[j] : j \in 1..Len(emitted) } = cset
                                  /\ \A i, j \in 1..Len(emitted) : i < j => Less(emitted[i], emitted[j])
Live_Done == <>Done

(* the environments a package is run under: one dimension varied at a time against the baseline, plus mixed ones *)
Base == [seed |-> 0, glob |-> 0, cwd |-> "parent", spelling |-> "abs", rep |-> 1]
Envs ==
  { Base } \cup { [Base EXCEPT !.seed = s] : s \in 1..Seeds } \cup { [Base EXCEPT !.glob = g] : g \in 1..Globs }
  \cup { [Base EXCEPT !.cwd = "elsewhere"], [Base EXCEPT !.spelling = "rel"], [Base EXCEPT !.spelling = "abs/"], [Base EXCEPT !.rep = 2] }
  \cup { [seed |-> s, glob |-> s, cwd |-> "elsewhere", spelling |-> "rel", rep |-> 1] : s \in 1..2 }
  \* the working directory is an ancestor of the package, two plain directories above it, and the source is given relative to it
  \cup { [Base EXCEPT !.cwd = "ancestor", !.spelling = "rel"] }
EmitEnvs == (Done /\ cset = { [depth |-> 1, id |-> 1] }) => PrintT(ToJson(Envs))

(***************************************************************************)
(* Judging the runs of one package: obs = [package, runs: Seq [env, digest, difffile]] (first run = baseline) *)
(***************************************************************************)
Dim(e) == IF e.seed # 0 /\ e.glob = 0 THEN "hash-seed" ELSE IF e.glob # 0 /\ e.seed = 0 THEN "enumeration-order"
          ELSE IF e.seed # 0 THEN "mixed" ELSE IF e.cwd # "parent" THEN "working-directory" ELSE IF e.spelling # "abs" THEN "path-spelling-" \o e.spelling
          ELSE IF e.rep # 1 THEN "repetition" ELSE "baseline"
JudgeRuns(obs) ==
  { [property |-> "C08", clause |-> "Function", sig |-> Dim(obs.runs[j].env) \o ":" \o obs.package \o ":" \o obs.runs[j].diffkind,
      expected |-> obs.runs[1].digest, observed |-> obs.runs[j].digest \o " first differing file: " \o obs.runs[j].difffile]
    : j \in { j \in 2..Len(obs.runs) : obs.runs[j].digest # obs.runs[1].digest } }
=============================================================================
