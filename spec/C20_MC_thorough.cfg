SPECIFICATION Spec
CONSTANT Tier = "thorough"
INVARIANT Inv_C20_Exact
INVARIANT Inv_C20_NoLeak
INVARIANT Inv_C20_PendingOnlyOwn
INVARIANT Emit
PROPERTY Live_Done
CHECK_DEADLOCK FALSE
