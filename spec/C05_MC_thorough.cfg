SPECIFICATION Spec
CONSTANT Tier = "thorough"
INVARIANT Inv_C05_Compositional
INVARIANT Inv_C05_NonEmpty
INVARIANT Inv_C05_OptionalIdempotent
INVARIANT Inv_C05_UnionDedup
INVARIANT Emit
CHECK_DEADLOCK FALSE
