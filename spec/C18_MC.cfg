SPECIFICATION Spec
INVARIANT Inv_C18_Local
INVARIANT Inv_C18_Permute
INVARIANT Emit
PROPERTY Live_Done
CHECK_DEADLOCK FALSE
