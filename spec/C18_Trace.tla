------------------------------ MODULE C18_Trace ------------------------------
(* Trace validation for C18: the stub of one module in two runs on related packages. *)
EXTENDS Naturals, Sequences, TLC, Json, IOUtils
L == INSTANCE Locality WITH base <- "", kind <- "", feat <- <<>>, pkg <- 0, stubA <- 0, stubB <- 0, pc <- ""
Obs == JsonDeserialize(IOEnv.OBS_FILE)
VARIABLES n, bad
TInit == n = 0 /\ bad = {}
TNext == /\ n < Len(Obs)
         /\ n' = n + 1
         /\ bad' = L!Judge(Obs[n + 1].obs)
TSpec == TInit /\ [][TNext]_<<n, bad>>
Report == bad = {} \/ PrintT(ToJson([id |-> Obs[n].id, bad |-> bad]))
AllConsumed == TLCGet("stats").diameter - 1 = Len(Obs)
=============================================================================
