SPECIFICATION Spec
CONSTANT Tier = "quick"
INVARIANT Inv_C12_Balanced
INVARIANT Inv_C12_NoStale
INVARIANT Inv_C12_LaterWins
INVARIANT Inv_C12_NoDup
INVARIANT Inv_C12_OneOwner
INVARIANT Inv_C12_Resolves
INVARIANT Inv_C12_StackDepth
INVARIANT Emit
PROPERTY Live_Done
CHECK_DEADLOCK FALSE
