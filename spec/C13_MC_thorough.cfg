SPECIFICATION Spec
CONSTANT MaxLen = 4
INVARIANT Inv_C13_CacheCoherent
INVARIANT Inv_C13_Transparent
INVARIANT Emit
CHECK_DEADLOCK FALSE
