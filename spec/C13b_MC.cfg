SPECIFICATION Spec
INVARIANT Inv_C13_Attach
INVARIANT Inv_C13_Complete
INVARIANT Inv_C13_OrderFree
INVARIANT Emit
PROPERTY Live_Done
CHECK_DEADLOCK FALSE
