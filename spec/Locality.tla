------------------------------- MODULE Locality -------------------------------
(***************************************************************************)
(* C18 - a module's stub depends only on what the module uses.             *)
(*                                                                         *)
(* A package is a set of modules; module M's stub is a function of M, of   *)
(* the modules M references and of the package __init__ files that         *)
(* re-export M (Deps).  A history perturbs the package (add / remove /     *)
(* rename / change an unrelated module, possibly one that reuses M's       *)
(* names; permute M's top-level declarations) and regenerates.             *)
(***************************************************************************)
EXTENDS Naturals, Sequences, FiniteSets, TLC, Json

P == INSTANCE Pipeline WITH Tier <- "quick", feats <- {}, opts <- 0, pc <- "", todo <- {}
Bases == {"standalone", "references-sibling", "reexported-by-init", "unanalysed-names",
          "private-mixin"}      \* M has a class derived from a private class of another module whose public method mentions a class of a third module
Perturbs == {"add-plain", "add-same-names", "rename-unrelated", "change-unrelated", "remove-unrelated", "permute-own",
             "reexport-unrelated-same-name",
             "add-module-named-like-uninstalled-library",   \* M uses a class of a library that is not installed where the analysis runs; an unrelated module pkg/x/<library>.py defines a class of that name
             "add-class-named-in-docstring",       \* an unrelated module defines a class called like a type that only a docstring of M names (M does not import it)
             "reexport-unrelated-prefix-module",   \* the root __init__ re-exports an unrelated module whose name is a string prefix of M's (mmo / mmod)
             "add-sibling-subclass",             \* unrelated modules (enumerated before and after M) with another subclass of the same private class, same member names
             "remove-all-unrelated"}             \* base "feature": M is one declaration form of Pipeline.tla, the rest of the package is the 120 others     \* an unrelated module reuses M's names and the root __init__ re-exports one of *its* classes

(* abstract package: module name -> content version; M is the module under observation, N a module M references, U unrelated *)
BasePkg(b) == IF b = "feature" THEN [M |-> 1, N |-> 1, I |-> 0, U |-> 1, U2 |-> 0, RI |-> 0, order |-> 1] ELSE
              [M |-> 1, N |-> IF b \in {"references-sibling", "private-mixin"} THEN 1 ELSE 0, I |-> IF b = "reexported-by-init" THEN 1 ELSE 0, U |-> 0, U2 |-> 0, RI |-> 0, order |-> 1]
WithU(p) == [p EXCEPT !.U = 1]
Apply(p, k) ==
  CASE k = "add-plain" -> [p EXCEPT !.U = 1]
    [] k = "add-same-names" -> [p EXCEPT !.U = 3]
    [] k = "rename-unrelated" -> [p EXCEPT !.U = 0, !.U2 = p.U]
    [] k = "change-unrelated" -> [p EXCEPT !.U = 2]
    [] k = "remove-unrelated" -> [p EXCEPT !.U = 0]
    [] k = "permute-own" -> [p EXCEPT !.order = 2]
    [] k = "remove-all-unrelated" -> [p EXCEPT !.U = 0]
    [] k = "add-sibling-subclass" -> [p EXCEPT !.U = 4]
    [] k = "reexport-unrelated-prefix-module" -> [p EXCEPT !.U2 = 5, !.RI = 2]
    [] k = "add-class-named-in-docstring" -> [p EXCEPT !.U = 5]
    [] k = "add-module-named-like-uninstalled-library" -> [p EXCEPT !.U = 6]
    [] k = "reexport-unrelated-same-name" -> [p EXCEPT !.U = 3, !.RI = 1]   \* RI: the root __init__ re-exports a class of U (not of M, not of N)
StartOf(b, k) == IF k \in {"rename-unrelated", "change-unrelated", "remove-unrelated"} THEN WithU(BasePkg(b)) ELSE BasePkg(b)
Deps(p) == <<p.M, p.N, p.I>>                       \* what M's stub may depend on
StubOf(p) == [deps |-> Deps(p), order |-> p.order]  \* the design: a function of Deps and of M's own declaration order

VARIABLES base, kind, feat, pkg, stubA, stubB, pc
vars == <<base, kind, feat, pkg, stubA, stubB, pc>>
Init == /\ \/ base \in Bases /\ kind \in Perturbs \ {"remove-all-unrelated"} /\ feat = <<>>
           \/ base = "feature" /\ kind = "remove-all-unrelated" /\ feat \in P!Features
        /\ pkg = StartOf(base, kind) /\ stubA = StubOf(pkg) /\ stubB = StubOf(pkg) /\ pc = "run-a"
Perturb == pc = "run-a" /\ pkg' = Apply(pkg, kind) /\ pc' = "perturbed" /\ UNCHANGED <<base, kind, feat, stubA, stubB>>
RunB == pc = "perturbed" /\ stubB' = StubOf(pkg) /\ pc' = "done" /\ UNCHANGED <<base, kind, feat, pkg, stubA>>
Next == Perturb \/ RunB
Spec == Init /\ [][Next]_vars /\ WF_vars(Next)
Inv_C18_Local == (pc = "done" /\ kind # "permute-own") => stubB = stubA
Inv_C18_Permute == (pc = "done" /\ kind = "permute-own") => stubB.deps = stubA.deps
Live_Done == <>(pc = "done")
Emit == pc = "done" => PrintT(ToJson([base |-> base, kind |-> kind, feat |-> feat]))

(* obs = [base, kind, a, b (digests of M's stub bytes), bagA, bagB (digest of the bag of declaration blocks), headA, headB] *)
Judge(obs) ==
  IF obs.kind # "permute-own"
  THEN (IF obs.a = obs.b THEN {} ELSE { [property |-> "C18", clause |-> "Local", sig |-> obs.kind \o ":" \o obs.base, expected |-> obs.a, observed |-> obs.b] })
  ELSE (IF obs.bagA = obs.bagB /\ obs.headA = obs.headB THEN {}
        ELSE { [property |-> "C18", clause |-> "Permute", sig |-> (IF obs.bagA # obs.bagB THEN "declarations-change:" ELSE "header-changes:") \o obs.base, expected |-> obs.bagA, observed |-> obs.bagB] })
=============================================================================
