SPECIFICATION Spec
CONSTANT Seeds = 6
CONSTANT Globs = 3
INVARIANT Inv_C08_ChooseOrderFree
INVARIANT Inv_C08_EmitOrderFree
INVARIANT EmitEnvs
PROPERTY Live_Done
CHECK_DEADLOCK FALSE
