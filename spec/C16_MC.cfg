SPECIFICATION Spec
CONSTANT MaxOps = 3
INVARIANT Inv_C16_Pure
INVARIANT Inv_C16_Idem
INVARIANT Emit
CHECK_DEADLOCK FALSE
