SPECIFICATION Spec
CONSTANT Alphabet = "abA1_"
CONSTANT MaxLen = 6
INVARIANT Inv_C09_ScannerAgrees
INVARIANT Inv_C09_Idempotent
INVARIANT Inv_C09_NoUnderscoreLeft
INVARIANT Inv_C09_OffIsIdentity
INVARIANT Inv_C09_AlwaysIdentifier
INVARIANT Emit
PROPERTY Live_Done
CHECK_DEADLOCK FALSE
