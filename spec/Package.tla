------------------------------- MODULE Package -------------------------------
(***************************************************************************)
(* Package topology: publicity (C04), placement of declarations in stub    *)
(* files (C03), layout of files (C10).                                     *)
(*                                                                         *)
(* Universe U1 (DESIGN 7, C03): one top-level declaration `d` (function,   *)
(* class with members, class with inner class, enum) in one module M at    *)
(* one of four placements below the scenario package, with at most one     *)
(* re-export of it in the __init__ of an ancestor package, in one of five  *)
(* forms.  The machine: Discover -> Analyse (publicity of every entity) -> *)
(* Place (each public entity is emitted in its module's stub or moved -    *)
(* not copied - to the re-exporting package) -> Write.                     *)
(***************************************************************************)
EXTENDS Naturals, Sequences, FiniteSets, TLC, Json

CONSTANTS Tier
I == INSTANCE Ident WITH Alphabet <- "a", MaxLen <- 0, name <- "", cls <- FALSE, i <- 0, out <- "", capNext <- FALSE, seenPart <- FALSE, pc <- ""
PrivateName(n) == I!PrivateName(n)
Internal(n) == I!IsInternal(n)

Kinds == {"function", "class", "classinner", "enum"}
DNames == {"pubdecl", "_privdecl", "__dunder__", "__mangled", "_trail__"}     \* the last two are private: two leading underscores only, trailing underscores only
Stems == {"pubmod", "_privmod"}
Places == {"root", "pubsub", "privsub", "nested"}
PlacePath(p) == CASE p = "root" -> <<>> [] p = "pubsub" -> <<"subp">> [] p = "privsub" -> <<"_hid">> [] p = "nested" -> <<"subp", "deep">>
Forms == {"name", "alias", "star", "module", "modalias"}
Aliases == {"PubAlias", "_privalias"}
NoReexp == [form |-> "none", at |-> 0, alias |-> ""]

Prefix(s, n) == SubSeq(s, 1, n)
SegPrivate(path) == \E j \in 1..Len(path) : PrivateName(path[j])
(* a re-export sits in the __init__ of a non-private ancestor package: `at` = number of path segments of that package *)
Reexps(place) ==
  { NoReexp } \cup
  { [form |-> f, at |-> n, alias |-> a] :
      f \in Forms, n \in { m \in 0..Len(PlacePath(place)) : ~SegPrivate(Prefix(PlacePath(place), m)) },
      a \in Aliases }
WellFormed(s) ==
  /\ (s.reexp.form \in {"name", "star", "module"} => s.reexp.alias = "PubAlias")   \* alias unused: one representative
Universe(tier) ==
  { s \in { [kind |-> k, dname |-> d, stem |-> m, place |-> p, reexp |-> r] :
              k \in Kinds, d \in DNames, m \in Stems, p \in Places, r \in UNION { Reexps(q) : q \in Places } }
      : s.reexp \in Reexps(s.place) /\ WellFormed(s)
        /\ (tier = "thorough" \/ s.kind \in {"function", "class"} \/ s.reexp.form \in {"none", "name", "module"})
        /\ (s.dname \in {"__mangled", "_trail__"} => (s.kind \in {"function", "class"} /\ s.reexp.form \in {"none", "name"} /\ (tier = "thorough" \/ s.stem = "pubmod"))) }

(* ---------- definitions of Appendix B ---------- *)
ModPath(s) == PlacePath(s.place)
PathPrivate(s) == SegPrivate(ModPath(s)) \/ PrivateName(s.stem)
(* the name under which the re-export exposes d ("" = it does not expose d) *)
ExposedName(s) ==
  LET r == s.reexp IN
  CASE r.form = "none" -> ""
    [] r.form = "name" -> s.dname
    [] r.form = "alias" -> r.alias
    [] r.form = "star" -> IF Internal(s.dname) THEN "" ELSE s.dname
    [] r.form = "module" -> IF PrivateName(s.stem) THEN "" ELSE s.dname
    [] r.form = "modalias" -> IF PrivateName(r.alias) THEN "" ELSE s.dname
Exposes(s) == ExposedName(s) # ""
PublicTop(s) == (~PrivateName(s.dname) /\ ~PathPrivate(s)) \/ (Exposes(s) /\ ~PrivateName(ExposedName(s)))

(* entities of the declaration: <<role, private-named?>> *)
Entities(s) ==
  { <<"decl", FALSE>> } \cup
  (CASE s.kind = "function" -> {}
     [] s.kind = "class" -> { <<"meth", FALSE>>, <<"attr", FALSE>>, <<"pmeth", TRUE>>, <<"iattr", FALSE>>,
                             <<"attr2", FALSE>>, <<"iattr2", FALSE>>, <<"ometh", FALSE>>, <<"prop", FALSE>> }     \* attr2 / iattr2: second target of a tuple assignment whose first target is already defined
     [] s.kind = "classinner" -> { <<"meth", FALSE>>, <<"inner", FALSE>>, <<"imeth", FALSE>>, <<"pinner", TRUE>> }
     [] s.kind = "enum" -> { <<"AA", FALSE>>, <<"BB", FALSE>>, <<"PM", TRUE>> })      \* PM: a member with a private name (_pm = 3)
Roles(s) == { e[1] : e \in Entities(s) }
Public(s, role) == PublicTop(s) /\ \A e \in Entities(s) : e[1] = role => ~e[2]
PublicRoles(s) == { r \in Roles(s) : Public(s, r) }

(* homes are identified by the dotted Python module the stub file announces *)
RECURSIVE Dotted(_)
Dotted(segs) == IF Len(segs) = 0 THEN "" ELSE IF Len(segs) = 1 THEN segs[1] ELSE segs[1] \o "." \o Dotted(Tail(segs))
ModuleHome(s) == ModPath(s) \o << s.stem >>                 \* relative to the scenario package
ReexpHome(s) == Prefix(ModPath(s), s.reexp.at)
AllowedHomes(s) == { ModuleHome(s) } \cup (IF s.reexp.form # "none" THEN { ReexpHome(s) } ELSE {})
(* the constructive choice (B.5): the exposing package if it exposes d and is on a strictly shorter path *)
ChosenHome(s) == IF Exposes(s) /\ Len(ReexpHome(s)) < Len(ModuleHome(s)) THEN ReexpHome(s) ELSE ModuleHome(s)
AllowedNames(s) == { s.dname } \cup (IF s.reexp.form = "alias" THEN { s.reexp.alias } ELSE {})

(* ---------- the machine ---------- *)
VARIABLES sc, pc, pub, occ
vars == <<sc, pc, pub, occ>>
Init == sc \in Universe(Tier) /\ pc = "analyse" /\ pub = {} /\ occ = {}
Analyse == pc = "analyse" /\ pub' = PublicRoles(sc) /\ pc' = "place" /\ UNCHANGED <<sc, occ>>
Place ==     \* the declaration and everything it owns is emitted in exactly one stub: moved, not copied
  /\ pc = "place"
  /\ occ' = { <<r, ChosenHome(sc)>> : r \in pub }
  /\ pc' = "done" /\ UNCHANGED <<sc, pub>>
Next == Analyse \/ Place
Spec == Init /\ [][Next]_vars /\ WF_vars(Next)

Inv_C03_ExactlyOnce == pc = "done" => \A r \in PublicRoles(sc) : Cardinality({ o \in occ : o[1] = r }) = 1
Inv_C03_Home == pc = "done" => \A o \in occ : o[2] \in AllowedHomes(sc)
Inv_C04_NoLeak == pc = "done" => \A o \in occ : o[1] \in PublicRoles(sc)
Inv_C04_PrivateNeverPublic == \A e \in Entities(sc) : e[2] => ~Public(sc, e[1])
Inv_C04_ReexportNeeded == (PathPrivate(sc) /\ ~Exposes(sc)) => PublicRoles(sc) = {}
Live_Done == <>(pc = "done")
Emit == pc = "done" => PrintT(ToJson(sc))

(***************************************************************************)
(* Judging a real run of scenario s.                                       *)
(* obs = [ ents: Seq of [role, occs: Seq of [home: Seq(STRING), name, inowner: BOOLEAN], jsonpublic: "true"|"false"|"absent"] ] *)
(***************************************************************************)
NameClass(n) == IF PrivateName(n) THEN "private-name" ELSE IF Internal(n) THEN "dunder-name" ELSE "public-name"
BasePublic(s) == ~PrivateName(s.dname) /\ ~PathPrivate(s)
(* the route by which the declaration is (or is not) public: this is what identifies the code path *)
Route(s) ==
  (IF s.kind = "enum" THEN "enum:" ELSE "") \o
  (IF BasePublic(s) THEN "base-public:" \o s.reexp.form
   ELSE "via-reexport:" \o s.reexp.form
        \o (IF s.reexp.form \in {"alias", "modalias"} THEN (IF PrivateName(s.reexp.alias) THEN "-private-alias" ELSE "-public-alias") ELSE "")
        \o ":" \o (IF s.reexp.form = "none" THEN "-" ELSE IF s.reexp.at = Len(ModPath(s)) THEN "parent" ELSE "ancestor")
        \o ":" \o NameClass(s.dname) \o ":" \o (IF PrivateName(s.stem) THEN "private-module" ELSE IF SegPrivate(ModPath(s)) THEN "private-package" ELSE "public-path"))
Sig(s, role) == (IF role = "decl" THEN "decl" ELSE "member-" \o role) \o ":" \o Route(s)
DeclOcc(obs) == LET D == { j \in 1..Len(obs.ents) : obs.ents[j].role = "decl" } IN Len(obs.ents[CHOOSE j \in D : TRUE].occs)
JudgeEnt(s, e, declOcc) ==
  LET isPub == Public(s, e.role)
      n == Len(e.occs)
      member == e.role # "decl"
      \* members follow their declaration: when the declaration itself is dropped or duplicated only the declaration is reported
      skip == member /\ PublicTop(s) /\ declOcc # 1
  IN
  IF skip THEN {} ELSE
  (IF isPub /\ n = 0 THEN { [property |-> "C03", clause |-> "ExactlyOnce", sig |-> "dropped:" \o Sig(s, e.role), expected |-> "1 occurrence", observed |-> "0"] } ELSE {})
  \cup (IF isPub /\ n > 1 THEN { [property |-> "C03", clause |-> "ExactlyOnce", sig |-> "duplicated:" \o Sig(s, e.role), expected |-> "1 occurrence", observed |-> ToString(n)] } ELSE {})
  \cup (IF isPub /\ n = 1 /\ e.role = "decl" /\ e.occs[1].home \notin AllowedHomes(s)
        THEN { [property |-> "C03", clause |-> "Home", sig |-> Sig(s, e.role), expected |-> ToString(AllowedHomes(s)), observed |-> ToString(e.occs[1].home)] } ELSE {})
  \cup (IF isPub /\ n = 1 /\ e.role = "decl" /\ e.occs[1].name \notin AllowedNames(s)
        THEN { [property |-> "C03", clause |-> "Name", sig |-> Sig(s, e.role), expected |-> ToString(AllowedNames(s)), observed |-> e.occs[1].name] } ELSE {})
  \cup (IF isPub /\ n = 1 /\ ~e.occs[1].inowner
        THEN { [property |-> "C03", clause |-> "Owner", sig |-> Sig(s, e.role), expected |-> "inside its owner", observed |-> "elsewhere"] } ELSE {})
  \cup (IF ~isPub /\ n > 0 THEN { [property |-> "C04", clause |-> "NoLeak", sig |-> Sig(s, e.role), expected |-> "0 occurrences", observed |-> ToString(n)] } ELSE {})
  \cup (IF e.jsonpublic # "absent" /\ e.jsonpublic # (IF isPub THEN "true" ELSE "false") /\ ~(member /\ PublicTop(s) /\ FALSE)
        THEN { [property |-> "C04", clause |-> "Flags", sig |-> Sig(s, e.role), expected |-> ToString(isPub), observed |-> e.jsonpublic] } ELSE {})
Judge(s, obs) == UNION { JudgeEnt(s, obs.ents[j], DeclOcc(obs)) : j \in 1..Len(obs.ents) }
=============================================================================
