------------------------------- MODULE Walker -------------------------------
(***************************************************************************)
(* C12 - the API JSON is a complete, internally consistent inventory.      *)
(*                                                                         *)
(* The analyser walks the declaration tree of a module in pre-order with   *)
(* a declaration stack: Enter(node) pushes, Leave(node) pops and registers *)
(* the node with the API *and* with its owner in the same step.  Ids are   *)
(* built from the stack: <owner id>/<name>.                                *)
(*                                                                         *)
(* A node is [k, name, flags, ch].  k: module class func enum attr inst    *)
(* (enum instance) param result.  flags: subset of                          *)
(* {static, classmethod, property, ctor}.                                  *)
(***************************************************************************)
EXTENDS Naturals, Sequences, FiniteSets, TLC, Json

CONSTANTS Tier

N(k, name, flags, ch) == [k |-> k, name |-> name, flags |-> flags, ch |-> ch]
Param(n) == N("param", n, {}, <<>>)
(* a parameter with a literal default: the inventory records the value the source gives (as JSON text) *)
ParamD(n, d) == N("param", n, {"default:" \o d}, <<>>)
DefaultSrcs == {"+2", "-1", "1.5", "+0.5", "None", "True", "'s'", "0x10", "-2.5"}
ExpDefault(d) == CASE d = "+2" -> "2" [] d = "-1" -> "-1" [] d = "1.5" -> "1.5" [] d = "+0.5" -> "0.5" [] d = "None" -> "null" [] d = "True" -> "true"
                   [] d = "'s'" -> "\"\\\"s\\\"\"" [] d = "0x10" -> "16" [] d = "-2.5" -> "-2.5"     \* a string value is recorded with its quotes
Res == N("result", "result_1", {}, <<>>)

Method(kind) ==
  CASE kind = "inst" -> N("func", "meth", {}, << Param("self"), Param("a"), Res >>)
    [] kind = "static" -> N("func", "smeth", {"static"}, << Param("a"), Res >>)
    [] kind = "classmethod" -> N("func", "cmeth", {"classmethod"}, << Param("cls"), Res >>)
    [] kind = "property" -> N("func", "prop", {"property"}, << Param("self"), Res >>)
    [] kind = "private" -> N("func", "_hidden", {}, << Param("self"), Res >>)
    [] kind = "propsetter" -> N("func", "rwprop", {"property", "setter"}, << Param("self"), Res >>)      \* property with a setter
    [] kind = "overload" -> N("func", "ovl", {"overload"}, << Param("self"), Param("a"), Res >>)         \* @overload group + implementation
    [] kind = "overload-static" -> N("func", "ovls", {"overload", "static"}, << Param("a"), Res >>)       \* overloaded @staticmethod: the implementation is decorated too
    [] kind = "overload-class" -> N("func", "ovlc", {"overload", "classmethod"}, << Param("cls"), Param("a"), Res >>)
Ctor == N("func", "__init__", {"ctor"}, << Param("self"), Param("x"), N("attr", "ia", {}, <<>>), N("attr", "_ib", {}, <<>>) >>)
ClassAttr == N("attr", "ca", {"static"}, <<>>)
\* legal but unusual Python: a name assigned twice in one statement (ca = ca = 1), an assignment into an attribute of an attribute in the
\* same statement (self.ia = self.ia.sub = 1: `sub` is no attribute of the class), a function defined twice (the later definition wins;
\* the earlier one has a single parameter zold)
ClassAttrC == N("attr", "ca", {"static", "chained"}, <<>>)
CtorD == N("func", "__init__", {"ctor"}, << Param("self"), Param("x"), N("attr", "ia", {"deep"}, <<>>), N("attr", "_ib", {}, <<>>) >>)
Redef(f) == [f EXCEPT !.flags = f.flags \cup {"redefined"}]
\* a class defined twice: the earlier definition has an attribute zattr and a method zmeth that the later one lacks
EarlierClass(c) == N("class", c.name, {"earlier"}, << N("attr", "zattr", {"static"}, <<>>), N("func", "zmeth", {}, << Param("self") >>) >>)
\* an enum defined twice: the earlier definition has a member ZZ that the later one lacks
EarlierEnum(e) == N("enum", e.name, {"earlier"}, << N("inst", "ZZ", {}, <<>>) >>)
Earlier(f) == IF f.k = "class" THEN EarlierClass(f) ELSE IF f.k = "enum" THEN EarlierEnum(f) ELSE [f EXCEPT !.flags = (f.flags \ {"redefined"}) \cup {"earlier"}, !.ch = (IF f.ch # <<>> /\ f.ch[1].name = "self" THEN << Param("self") >> ELSE <<>>) \o << Param("zold") >>]
EnumN(name, n) == N("enum", name, {}, [ j \in 1..n |-> N("inst", IF j = 1 THEN "AA" ELSE "BB", {}, <<>>) ])

InnerKinds == {"none", "class", "class2", "privclass", "enum"}
Inner(kind) ==
  CASE kind = "none" -> <<>>
    [] kind = "class" -> << N("class", "Inner", {}, << Method("inst") >>) >>
    [] kind = "class2" -> << N("class", "Inner", {}, << ClassAttr, N("class", "Deep", {}, << Method("static") >>) >>) >>
    [] kind = "privclass" -> << N("class", "_PInner", {}, << Method("inst") >>) >>
    [] kind = "enum" -> << EnumN("NestedE", 2) >>

Supers == {"none", "one", "two", "aliased", "subscripted", "subscripted-aliased"}     \* subscripted-aliased: class Cls(GenAlias[int]), GenAlias imported as alias of basemod.GenBase after another class called GenBase     \* subscripted: class Cls(GenBase[int])
ClassN(name, ctor, cattr, mkinds, inner, sup) ==
  [ N("class", name, {}, (IF cattr THEN << ClassAttr >> ELSE <<>>) \o (IF ctor THEN << Ctor >> ELSE <<>>)
                          \o mkinds \o Inner(inner)) EXCEPT !.flags = { "super-" \o sup } ]

MethodSeqs(tier) ==
  { <<>> } \cup { << Method(k) >> : k \in {"inst", "static", "classmethod", "property", "private"} }
  \cup { << Method("inst"), Method("static") >>, << Method("property"), Method("classmethod"), Method("private") >>,
         << Method("propsetter") >>, << Method("overload") >>, << Method("inst"), Method("overload"), Method("propsetter") >>,
         << Method("overload-static") >>, << Method("overload-class"), Method("inst") >> }
Classes(tier) ==
  { ClassN(nm, ct, ca, ms, inn, sup) :
      nm \in {"Cls", "_PrivCls"}, ct \in BOOLEAN, ca \in BOOLEAN, ms \in MethodSeqs(tier),
      inn \in (IF tier = "quick" THEN {"none", "class2", "enum"} ELSE InnerKinds), sup \in (IF tier = "quick" THEN {"none", "two", "aliased"} ELSE Supers) }
  \cup { ClassN("Cls", ct, TRUE, << Method("inst") >>, "none", sup) : ct \in BOOLEAN, sup \in {"subscripted", "subscripted-aliased"} }
Funcs == { N("func", "dflt", {}, << ParamD("a", "+2"), ParamD("b", "-1"), ParamD("c", "1.5"), ParamD("d", "+0.5"), Res >>),
           N("func", "dflt2", {}, << ParamD("a", "None"), ParamD("b", "True"), ParamD("c", "'s'"), ParamD("d", "0x10"), ParamD("e", "-2.5"), Res >>),
           N("func", "fun", {}, << Param("a"), Param("b"), Res >>), N("func", "_pfun", {}, << Param("a") >>), N("func", "noargs", {}, <<>>),
           N("func", "movl", {"overload"}, << Param("a"), Res >>), N("func", "mdovl", {"overload", "deco"}, << Param("a"), Res >>) }
(* functions whose NumPy docstring names fewer results than the annotated tuple has (run with the NumPy style): two results, each
   listed once and each with an entry of its own.  Which of the documented names they carry is C07's business: the harness projects the
   results of these functions onto their positions in the owner's list ("?1", "?2"). *)
ResAny(j) == N("result", IF j = 1 THEN "?1" ELSE "?2", {}, <<>>)
DocFuncs == { N("func", "dpart", {"docpartial"}, << Param("a"), ResAny(1), ResAny(2) >>), N("func", "dpart2", {"docpartial"}, << Param("a"), Param("b"), ResAny(1), ResAny(2) >>) }
\* (a docstring that names more results than the annotation admits is contradictory input - see Results.tla - and is not generated)
(* the other enum classes of the standard library: the flag names the base class the enum derives from *)
EnumB(name, n, base) == [ EnumN(name, n) EXCEPT !.flags = { "base-" \o base } ]
Enums == { EnumN("Col", 2), EnumN("Empty", 0), EnumN("_PCol", 2) }
EnumsB == { EnumB("SCol", 2, "StrEnum"), EnumB("FCol", 2, "Flag"), EnumB("GCol", 2, "IntFlag"), EnumB("ICol", 2, "IntEnum") }    \* alone in their module only

Unusual == { Redef(EnumN("Col", 2)), N("func", "fun", {"redefined"}, << Param("a"), Param("b"), Res >>), N("func", "noargs", {"redefined"}, <<>>),
             N("class", "Cls", {"super-none"}, << ClassAttrC, CtorD, Redef(Method("inst")), Method("static") >>),
             N("class", "Cls", {"super-none"}, << ClassAttr, CtorD >>), N("class", "Cls", {"super-none", "redefined"}, << ClassAttr, Ctor, Method("inst") >>), N("class", "Cls", {"super-none"}, << ClassAttrC, Redef(Method("static")) >>) }
Modules(tier) ==
  { N("module", "m", {}, << x >>) : x \in Classes(tier) \cup Funcs \cup Enums \cup EnumsB \cup Unusual }
  \cup { N("module", "m", {}, << x, y >>) : x \in { u \in Unusual : u.k = "func" }, y \in { u \in Unusual : u.k = "class" } }
  \cup { N("module", "m", {}, << x, y >>) : x \in Funcs \cup Enums, y \in { c \in Classes(tier) : c.name = "Cls" /\ Len(c.ch) <= 2 } }
  \cup { N("module", "m", {}, << y, x, z >>) : x \in Funcs, z \in Enums, y \in { c \in Classes(tier) : c.name = "Cls" /\ Len(c.ch) = 1 } }
  \cup { N("module", "m", {"numpydoc"}, << x >>) : x \in DocFuncs } \cup { N("module", "m", {"numpydoc"}, << q[1], q[2] >>) : q \in { r \in DocFuncs \X DocFuncs : r[1] # r[2] } }
  \cup { N("module", "m", {"numpydoc"}, << ClassN("Cls", FALSE, TRUE, << x >>, "none", "none") >>) : x \in { [ f EXCEPT !.ch = << Param("self") >> \o f.ch ] : f \in DocFuncs } }
  \* a class that derives from an enum class of its own module (an enum only indirectly): it is walked like any class, members and methods
  \cup { N("module", "m", {}, << EnumN("BaseKind", 0), [ ClassN("Kind", FALSE, TRUE, ms, "none", "none") EXCEPT !.flags = {"super-userenum"} ] >>)
         : ms \in { << Method("inst") >>, << Method("inst"), Method("static") >>, << Method("property"), Method("classmethod") >> } }
  \* names that merely end in "__init__": a class Cls__init__ with attributes and a constructor, a module file m__init__.py
  \cup { N("module", "m", {}, << ClassN("Cls__init__", TRUE, TRUE, << Method("inst") >>, "none", "none") >>),
         N("module", "m", {"initlike-filename"}, << ClassN("Cls", TRUE, TRUE, << Method("inst") >>, "none", "none"), N("func", "fun", {}, << Param("a"), Param("b"), Res >>) >>) }
  \* the same declarations written directly into a package file (pkg/__init__.py): the module entry is the package, ids keep its path
  \cup { N("module", "m", {"pkgfile"}, << x >>) : x \in { c \in Classes(tier) : Len(c.ch) <= 1 /\ (tier # "quick" \/ c.flags = {"super-none"}) } \cup Funcs \cup Enums }
  \cup { N("module", "m", {"pkgfile"}, << y, x, z >>) : x \in {N("func", "fun", {}, << Param("a"), Param("b"), Res >>)}, z \in {EnumN("Col", 2)},
                                                        y \in { c \in Classes(tier) : c.name = "Cls" /\ Len(c.ch) = 1 /\ c.flags = {"super-none"} } }

(* ---------- events of the walk: <<"enter"|"leave", node without children, depth>> ---------- *)
Bare(n) == [k |-> n.k, name |-> n.name, flags |-> n.flags]
Walkable(n) == n.k \in {"module", "class", "func", "enum", "attr", "inst"}    \* params/results are created while entering the function
RECURSIVE Events(_)
RECURSIVE EventsOfSeq(_)
\* both definitions are walked, the later replaces the earlier (of decorated definitions only the later is walked)
Events(n) == (IF "redefined" \in n.flags /\ n.flags \cap {"static", "classmethod", "property"} = {} THEN Events(Earlier(n)) ELSE <<>>)
             \o << <<"enter", Bare(n), n.ch>> >> \o EventsOfSeq(SelectSeq(n.ch, Walkable)) \o << <<"leave", Bare(n), n.ch>> >>
EventsOfSeq(s) == IF s = <<>> THEN <<>> ELSE Events(Head(s)) \o EventsOfSeq(Tail(s))

VARIABLES mod, ev, stack, api, owns
vars == <<mod, ev, stack, api, owns>>
Init == mod \in Modules(Tier) /\ ev = 1 /\ stack = <<>> /\ api = {} /\ owns = {}

IdOf(st, name) == IF st = <<>> THEN name ELSE st[Len(st)].id \o "/" \o name
IdSkippingCtor(st, name) ==      \* attributes assigned in the constructor belong to the class
  IF st # <<>> /\ st[Len(st)].name = "__init__" THEN st[Len(st) - 1].id \o "/" \o name ELSE IdOf(st, name)
Step ==
  /\ ev <= Len(Events(mod))
  /\ LET e == Events(mod)[ev]
         n == e[2]
     IN IF e[1] = "enter"
        THEN LET id == IF n.k = "attr" THEN IdSkippingCtor(stack, n.name) ELSE IdOf(stack, IF n.k = "module" THEN "pkg/" \o n.name ELSE n.name)
                 kids == { [kind |-> c.k, id |-> id \o "/" \o c.name] : c \in { e[3][j] : j \in { j \in 1..Len(e[3]) : e[3][j].k \in {"param", "result"} } } }
                 stale == IF "redefined" \notin n.flags THEN {}      \* what only the earlier definition had
                          ELSE IF n.k = "class" THEN { [kind |-> "attr", id |-> id \o "/zattr"], [kind |-> "func", id |-> id \o "/zmeth"], [kind |-> "param", id |-> id \o "/zmeth/self"] }
                          ELSE IF n.k = "enum" THEN { [kind |-> "inst", id |-> id \o "/ZZ"] }
                          ELSE { [kind |-> "param", id |-> id \o "/zold"] }
             IN /\ stack' = Append(stack, [id |-> id, name |-> n.name, k |-> n.k])
                /\ api' = (api \ stale) \cup kids
                /\ owns' = { o \in owns : \A c \in stale : o[2] # c.id } \cup { <<id, c.id>> : c \in kids }
        ELSE LET top == stack[Len(stack)]
                 rest == SubSeq(stack, 1, Len(stack) - 1)
                 ownerIdx == IF top.k = "attr" /\ rest # <<>> /\ rest[Len(rest)].name = "__init__" THEN Len(rest) - 1 ELSE Len(rest)
             IN /\ stack' = rest
                /\ api' = api \cup { [kind |-> top.k, id |-> top.id] }
                /\ owns' = IF ownerIdx = 0 THEN owns ELSE owns \cup { <<rest[ownerIdx].id, top.id>> }
  /\ ev' = ev + 1 /\ UNCHANGED mod
Next == Step
Spec == Init /\ [][Next]_vars /\ WF_vars(Next)
Done == ev > Len(Events(mod))

Inv_C12_NoStale == Done => \A a \in api : \A o \in owns : o[2] = a.id => \E b \in api : b.id = o[1]
Inv_C12_LaterWins == Done => ~\E a \in api : \E o \in owns : o[2] = a.id /\ a.id \in { o[1] \o "/zold", o[1] \o "/zattr", o[1] \o "/zmeth", o[1] \o "/ZZ" }
Inv_C12_Balanced == Done => stack = <<>>
Inv_C12_NoDup == \A a, b \in api : a.id = b.id => a = b
Inv_C12_OneOwner == Done => \A a \in api : a.kind # "module" => Cardinality({ o \in owns : o[2] = a.id }) = 1
Inv_C12_Resolves == Done => \A o \in owns : (\E a \in api : a.id = o[1]) /\ (\E a \in api : a.id = o[2])
Inv_C12_StackDepth == Len(stack) <= 6
Live_Done == <>Done
Emit == Done => PrintT(ToJson(mod))

(***************************************************************************)
(* Expected inventory of a module (relative ids) and the judge.            *)
(***************************************************************************)
SeqToSet(seq) == { seq[j] : j \in 1..Len(seq) }
RECURSIVE Inventory(_, _, _)
\* set of [kind, id, flags] for node n owned by id `oid` (cid = id of the enclosing class when n sits in its constructor).
\* Scenarios arrive through JSON here, where the flag sets are sequences.
Inventory(n, oid, cid) ==
  LET id == IF n.k = "attr" /\ cid # "" THEN cid \o "/" \o n.name ELSE oid \o "/" \o n.name
      self == { [kind |-> n.k, id |-> id, flags |-> SeqToSet(n.flags) \ {"ctor", "deco", "redefined", "chained", "deep", "docpartial", "docmore"}] }
  IN self \cup UNION { Inventory(n.ch[j], id, IF n.k = "func" /\ n.name = "__init__" THEN oid ELSE "") : j \in 1..Len(n.ch) }
ExpectedInventory(m, mid) == UNION { Inventory(m.ch[j], mid, "") : j \in 1..Len(m.ch) }

ToSet(seq) == { seq[j] : j \in 1..Len(seq) }
(* The walk of one module as the implementation performed it: obs.walk = Seq of <<phase, kind, name>> (assignment statements appear as *)
(* kind "assign").  It must be exactly the event sequence of the machine above: same order, properly nested, nothing visited twice.   *)
WalkKind(k) == IF k \in {"attr", "inst"} THEN "assign" ELSE k
WalkName(b) == IF b.k = "module" THEN "@module" ELSE IF "chained" \in b.flags THEN b.name \o "," \o b.name ELSE IF "deep" \in b.flags THEN b.name \o ",sub" ELSE b.name   \* an assignment is named by its targets
ExpectedWalk(m) == LET evs == Events(m) IN [ j \in 1..Len(evs) |-> << evs[j][1], WalkKind(evs[j][2].k), WalkName(evs[j][2]) >> ]
FirstDiffW(a, b) == LET n == IF Len(a) < Len(b) THEN Len(a) ELSE Len(b)
                        D == { j \in 1..n : a[j] # b[j] }
                    IN IF D = {} THEN n + 1 ELSE CHOOSE j \in D : \A k \in D : j <= k
RECURSIVE Norm(_)      \* scenarios arrive through JSON, where the flag sets are sequences
Norm(x) == [k |-> x.k, name |-> x.name, flags |-> SeqToSet(x.flags), ch |-> [ j \in 1..Len(x.ch) |-> Norm(x.ch[j]) ]]
JudgeWalk(m, obs) ==
  LET exp == ExpectedWalk(Norm(m))
      got == [ j \in 1..Len(obs.walk) |-> << obs.walk[j][1], obs.walk[j][2], IF obs.walk[j][2] = "module" THEN "@module" ELSE obs.walk[j][3] >> ]
      d == FirstDiffW(exp, got)
  IN IF exp = got THEN {}
     ELSE { [property |-> "C12", clause |-> "Walk",
             sig |-> "walk-differs:" \o (IF d > Len(exp) THEN "extra-event:" \o got[d][1] \o "-" \o got[d][2]
                                        ELSE IF d > Len(got) THEN "missing-event:" \o exp[d][1] \o "-" \o exp[d][2]
                                        ELSE "expected-" \o exp[d][1] \o "-" \o exp[d][2] \o ":got-" \o got[d][1] \o "-" \o got[d][2]),
             expected |-> ToString(exp), observed |-> ToString(got)] }
ExpSupers(sup) == CASE sup = "none" -> <<>> [] sup = "one" -> <<"basemod.BaseA">> [] sup = "two" -> <<"basemod.BaseA", "basemod.BaseB">> [] sup = "aliased" -> <<"basemod.BaseA">> [] sup = "subscripted" -> <<"basemod.GenBase">> [] sup = "subscripted-aliased" -> <<"basemod.GenBase">>
(* obs = [mid, entries: Seq [kind, id, name, refs: Seq ids, flags: Seq], sorted: BOOLEAN, dups: Seq ids, schema: Nat, valid: BOOLEAN] *)
Judge(m, obs) ==
  LET E == ToSet(obs.entries)
      ids == { e.id : e \in E }
      exp == ExpectedInventory(m, obs.mid)
      expIds == { x.id : x \in exp }
      obsK == { [kind |-> e.kind, id |-> e.id, flags |-> ToSet(e.flags)] : e \in E }
      refs == UNION { { <<e.id, r>> : r \in ToSet(e.refs) } : e \in E } \cup { <<obs.mid, r>> : r \in ToSet(obs.modrefs) }
      kindOf(i) == IF \E x \in exp : x.id = i THEN (CHOOSE x \in exp : x.id = i).kind ELSE "unexpected"
  IN
     (IF obs.valid /\ obs.schema = 1 THEN {} ELSE { [property |-> "C12", clause |-> "Valid", sig |-> "invalid-json-or-schema", expected |-> "valid, schemaVersion 1", observed |-> ToString(obs.schema)] })
  \cup (IF obs.sorted THEN {} ELSE { [property |-> "C12", clause |-> "Sorted", sig |-> "unsorted-list", expected |-> "sorted by id", observed |-> "unsorted"] })
  \cup { [property |-> "C12", clause |-> "NoDup", sig |-> "duplicate:" \o kindOf(d), expected |-> "unique ids", observed |-> d] : d \in ToSet(obs.dups) }
  \cup { [property |-> "C12", clause |-> "OneOwner", sig |-> "listed-twice-by-its-owner:" \o kindOf(d), expected |-> "listed once", observed |-> d] : d \in ToSet(obs.twice) }
  \cup { [property |-> "C12", clause |-> "Complete", sig |-> "missing:" \o x.kind \o (IF "ctor" \in x.flags THEN "-ctor" ELSE "")
                                                                    \o (IF \E f \in x.flags : f \in {"base-StrEnum", "base-Flag", "base-IntFlag", "base-IntEnum"} THEN ":other-enum-base-class" ELSE ""),
            expected |-> x.id, observed |-> "absent"]
         : x \in { x \in exp : x.id \notin ids } }
  \cup { [property |-> "C12", clause |-> "Complete", sig |-> "listed-as-another-kind:" \o x.kind \o "-as-" \o e.kind, expected |-> x.kind \o " " \o x.id, observed |-> e.kind]
         : <<x, e>> \in { p \in exp \X E : p[1].id = p[2].id /\ p[1].kind # p[2].kind /\ ~\E e2 \in E : e2.id = p[1].id /\ e2.kind = p[1].kind } }
  \cup { [property |-> "C12", clause |-> "Defaults", sig |-> "default-value:" \o d, expected |-> ExpDefault(d), observed |-> e.dflt]
         : <<e, d>> \in { p \in E \X DefaultSrcs : p[1].kind = "param" /\ (\E x \in exp : x.id = p[1].id /\ x.kind = "param" /\ ("default:" \o p[2]) \in x.flags) /\ p[1].dflt # ExpDefault(p[2]) } }
  \cup { [property |-> "C12", clause |-> "Complete", sig |-> "unexpected:" \o e.kind, expected |-> "absent", observed |-> e.id] : e \in { e \in E : e.id \notin expIds } }
  \cup { [property |-> "C12", clause |-> "Flags", sig |-> "flags:" \o x.kind, expected |-> ToString(x.flags), observed |-> ToString({ o.flags : o \in { o \in obsK : o.id = x.id } })]
         : x \in { x \in exp : x.kind \in {"func", "attr"} /\ x.id \in ids /\ [kind |-> x.kind, id |-> x.id, flags |-> { f \in x.flags : f \in {"static", "classmethod", "property"} }] \notin obsK } }
  \cup { [property |-> "C12", clause |-> "Supers", sig |-> "superclasses:" \o sup, expected |-> ToString(ExpSupers(sup)), observed |-> ToString(e.supers)]
         : <<e, sup>> \in { p \in E \X Supers : p[1].kind = "class" /\ (\E x \in exp : x.id = p[1].id /\ ("super-" \o p[2]) \in x.flags) /\ p[1].supers # ExpSupers(p[2]) } }
  \cup { [property |-> "C12", clause |-> "Resolves", sig |-> "dangling:" \o kindOf(r[2]), expected |-> "entry exists", observed |-> r[2]] : r \in { r \in refs : r[2] \notin ids } }
  \cup { [property |-> "C12", clause |-> "OneOwner", sig |-> "owners:" \o e.kind, expected |-> "1", observed |-> ToString(Cardinality({ r \in refs : r[2] = e.id })) \o " " \o e.id]
         : e \in { e \in E : Cardinality({ r \in refs : r[2] = e.id }) # 1 } }
  \cup { [property |-> "C12", clause |-> "IdForm", sig |-> "idform:" \o kindOf(r[2]), expected |-> r[1] \o "/<name>", observed |-> r[2]]
         : r \in { r \in refs : \E e \in E : e.id = r[2] /\ r[2] # r[1] \o "/" \o e.name } }
=============================================================================
