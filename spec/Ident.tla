-------------------------------- MODULE Ident --------------------------------
(***************************************************************************)
(* C09 - naming conversion renames consistently and keeps Python names     *)
(* recoverable.  (Also the identifier predicates used by C02 and C04.)     *)
(*                                                                         *)
(* The conversion is specified twice: declaratively (split at "_", drop    *)
(* empty parts, capitalise) and as a character scanner (the state machine  *)
(* below, one action per character).  TLC checks that the scanner computes *)
(* the declarative function for every identifier of the universe; each     *)
(* identifier is then replayed through the implementation.                 *)
(***************************************************************************)
EXTENDS Naturals, Sequences, FiniteSets, TLC, Json

CONSTANTS Alphabet,     \* string of characters to build identifiers from, e.g. "abA1_"
          MaxLen

Ch(s, i) == SubSeq(s, i, i)
Lower == "abcdefghijklmnopqrstuvwxyz"
UpperS == "ABCDEFGHIJKLMNOPQRSTUVWXYZ"
Up(c) == IF \E k \in 1..26 : Ch(Lower, k) = c THEN Ch(UpperS, CHOOSE k \in 1..26 : Ch(Lower, k) = c) ELSE c
IsDigit(c) == c \in {"0", "1", "2", "3", "4", "5", "6", "7", "8", "9"}

IsInternal(n) == Len(n) > 0 /\ Ch(n, 1) = "_"
IsDunder(n) == Len(n) > 4 /\ SubSeq(n, 1, 2) = "__" /\ SubSeq(n, Len(n) - 1, Len(n)) = "__"
PrivateName(n) == IsInternal(n) /\ ~IsDunder(n)

SdsKeywords == {"_", "and", "annotation", "as", "attr", "class", "const", "enum", "false", "from", "fun", "import", "in", "internal",
                "literal", "not", "null", "or", "out", "package", "pipeline", "private", "schema", "segment", "static", "sub", "this",
                "true", "union", "unknown", "val", "where", "yield"}

RECURSIVE SplitAt(_, _, _)
SplitAt(s, i, cur) ==
  IF i > Len(s) THEN << cur >>
  ELSE IF Ch(s, i) = "_" THEN << cur >> \o SplitAt(s, i + 1, "")
  ELSE SplitAt(s, i + 1, cur \o Ch(s, i))
Parts(s) == SelectSeq(SplitAt(s, 1, ""), LAMBDA p : p # "")
Cap(p) == Up(Ch(p, 1)) \o SubSeq(p, 2, Len(p))
RECURSIVE JoinCap(_)
JoinCap(ps) == IF ps = <<>> THEN "" ELSE Cap(Head(ps)) \o JoinCap(Tail(ps))

(* a name whose camel form would be empty or start with a digit has no camel form that is an identifier: it is kept *)
Legal(c, s) == IF c = "" \/ IsDigit(Ch(c, 1)) THEN s ELSE c
LowerCamel(s) == IF s = "_" THEN s ELSE LET p == Parts(s) IN Legal(IF p = <<>> THEN "" ELSE p[1] \o JoinCap(Tail(p)), s)
UpperCamel(s) == IF s = "_" THEN s ELSE Legal(JoinCap(Parts(s)), s)
Render(s, isClass, convert) == IF ~convert THEN s ELSE IF isClass THEN UpperCamel(s) ELSE LowerCamel(s)

(* dotted paths are converted segment by segment *)
RECURSIVE SplitDots(_, _, _)
SplitDots(s, i, cur) ==
  IF i > Len(s) THEN << cur >>
  ELSE IF Ch(s, i) = "." THEN << cur >> \o SplitDots(s, i + 1, "")
  ELSE SplitDots(s, i + 1, cur \o Ch(s, i))
RECURSIVE JoinDots(_)
JoinDots(ps) == IF Len(ps) = 1 THEN ps[1] ELSE ps[1] \o "." \o JoinDots(Tail(ps))
RenderPath(s, convert) == IF ~convert THEN s ELSE LET segs == SplitDots(s, 1, "") IN JoinDots([ j \in 1..Len(segs) |-> LowerCamel(segs[j]) ])

(* identifiers *)
RECURSIVE Strings(_)
Strings(n) == IF n = 0 THEN { "" } ELSE LET prev == Strings(n - 1) IN prev \cup { s \o Ch(Alphabet, k) : s \in { x \in prev : Len(x) = n - 1 }, k \in 1..Len(Alphabet) }
IsPyIdent(s) == Len(s) > 0 /\ ~IsDigit(Ch(s, 1))
OnlyUnderscores(s) == \A j \in 1..Len(s) : Ch(s, j) = "_"
(* all-underscore names other than "_" have no camel form: outside the statement *)
PyLegalKeywords == SdsKeywords \ {"and", "as", "class", "from", "import", "in", "not", "or", "yield"}
KeywordNames == PyLegalKeywords \cup { k \o "_" : k \in SdsKeywords \ {"_"} } \cup { "_" \o k : k \in SdsKeywords \ {"_"} }
                \cup { "my_" \o k : k \in {"val", "fun"} } \cup { k \o "_x" : k \in {"val", "in"} }
Identifiers(dummy) == { s \in Strings(MaxLen) : IsPyIdent(s) /\ (OnlyUnderscores(s) => s = "_") } \cup KeywordNames

(***************************************************************************)
(* The scanner (how an implementation walks the name).                     *)
(***************************************************************************)
VARIABLES name, cls, i, out, capNext, seenPart, pc
vars == <<name, cls, i, out, capNext, seenPart, pc>>
Init == /\ name \in Identifiers(0) /\ cls \in BOOLEAN
        /\ i = 1 /\ out = "" /\ capNext = FALSE /\ seenPart = FALSE /\ pc = "scan"
ScanChar ==
  /\ pc = "scan" /\ name # "_" /\ i <= Len(name)
  /\ LET c == Ch(name, i) IN
       IF c = "_"
       THEN /\ capNext' = seenPart       \* an underscore after the first part announces a capital; leading ones vanish
            /\ UNCHANGED <<out, seenPart>>
       ELSE /\ out' = out \o (IF capNext \/ (cls /\ ~seenPart) THEN Up(c) ELSE c)
            /\ capNext' = FALSE /\ seenPart' = TRUE
  /\ i' = i + 1 /\ UNCHANGED <<name, cls, pc>>
Finish ==
  /\ pc = "scan" /\ (name = "_" \/ i > Len(name))
  /\ out' = IF name = "_" THEN "_" ELSE IF out = "" \/ IsDigit(Ch(out, 1)) THEN name ELSE out
  /\ pc' = "done" /\ UNCHANGED <<name, cls, i, capNext, seenPart>>
Next == ScanChar \/ Finish
Spec == Init /\ [][Next]_vars /\ WF_vars(Next)

Inv_C09_ScannerAgrees == pc = "done" => out = Render(name, cls, TRUE)
Inv_C09_Idempotent == pc = "done" => Render(out, cls, TRUE) = out
Inv_C09_NoUnderscoreLeft == (pc = "done" /\ out # name) => \A j \in 1..Len(out) : Ch(out, j) # "_"
Inv_C09_AlwaysIdentifier == pc = "done" => IsPyIdent(out)
Inv_C09_OffIsIdentity == Render(name, cls, FALSE) = name
Live_Done == <>(pc = "done")
(* `camel` is the name's own camel form: a *different* Python name that is rendered the same under conversion (get_area / getArea) *)
Emit == (pc = "done" /\ ~cls) => PrintT(ToJson([name |-> name, camel |-> out]))

(***************************************************************************)
(* Judging.  Function level: obs = [lower, upper, off] (what the           *)
(* implementation returned).  End to end: one emitted declaration          *)
(* obs = [pos, py, shownOn, annotatedOn, shownOff, annotatedOff, missingOn, missingOff]    *)
(***************************************************************************)
NameClass(n) ==
  IF n = "_" THEN "underscore"
  ELSE IF n \in SdsKeywords THEN "keyword"
  ELSE IF IsInternal(n) /\ Len(n) > 1 /\ IsDigit(Ch(n, IF Ch(n, 2) = "_" /\ Len(n) > 2 THEN 3 ELSE 2)) THEN "underscore-digit"
  ELSE IF IsInternal(n) THEN "leading-underscore"
  ELSE IF Ch(n, Len(n)) = "_" THEN "trailing-underscore"
  ELSE IF \E j \in 1..Len(n) : Ch(n, j) = "_" THEN "inner-underscore"
  ELSE "plain"

JudgeFn(n, obs) ==
  (IF obs.lower # LowerCamel(n)
   THEN { [property |-> "C09", clause |-> "On", sig |-> "function:lower:" \o NameClass(n), expected |-> LowerCamel(n), observed |-> obs.lower] } ELSE {})
  \cup (IF obs.upper # UpperCamel(n)
   THEN { [property |-> "C09", clause |-> "On", sig |-> "function:upper:" \o NameClass(n), expected |-> UpperCamel(n), observed |-> obs.upper] } ELSE {})
  \cup (IF obs.off # n
   THEN { [property |-> "C09", clause |-> "Off", sig |-> "function:off:" \o NameClass(n), expected |-> n, observed |-> obs.off] } ELSE {})

JudgeDecl(obs) ==
  LET n == obs.py
      isClass == obs.pos = "class"
      exp == IF obs.pos = "module" THEN RenderPath(n, TRUE) ELSE Render(n, isClass, TRUE)
  IN
  (IF obs.missingOff THEN {}     \* not emitted at all without conversion: not a naming matter (C03/C04 judge that)
   ELSE IF obs.missingOn
   THEN { [property |-> "C09", clause |-> "Recover", sig |-> obs.pos \o ":lost-under-conversion:" \o NameClass(n), expected |-> n, observed |-> "absent"] }
   ELSE
     (IF obs.shownOff # n \/ obs.annotatedOff
      THEN { [property |-> "C09", clause |-> "Off", sig |-> obs.pos \o ":" \o NameClass(n), expected |-> n, observed |-> obs.shownOff] } ELSE {})
     \cup (IF obs.shownOn # exp
      THEN { [property |-> "C09", clause |-> "On", sig |-> obs.pos \o ":" \o NameClass(n), expected |-> exp, observed |-> obs.shownOn] } ELSE {})
     \cup (IF obs.annotatedOn /\ obs.annotationOn # n        \* the annotation gives the Python name back
      THEN { [property |-> "C09", clause |-> "Annotation", sig |-> obs.pos \o ":names-something-else", expected |-> n, observed |-> obs.annotationOn] } ELSE {})
     \cup (IF obs.annotatedOn # (obs.shownOn # n)
      THEN { [property |-> "C09", clause |-> "Annotation", sig |-> obs.pos \o ":" \o (IF obs.annotatedOn THEN "superfluous" ELSE "missing"),
               expected |-> ToString(obs.shownOn # n), observed |-> ToString(obs.annotatedOn)] } ELSE {}))

JudgeSkeleton(obs) ==    \* obs = [file, off, on]: digests of a stub with names replaced by recovered Python names
  IF obs.off = obs.on THEN {}
  ELSE { [property |-> "C09", clause |-> "NothingElse", sig |-> "skeleton-differs", expected |-> obs.off, observed |-> obs.on] }
=============================================================================
