---------------------------- MODULE C20_TodoTrace ----------------------------
(***************************************************************************)
(* Trace validation for C20, at the bookkeeping itself: the real stub      *)
(* generator's additions to its pending-marker set ("raise"), its flushes  *)
(* (with the set each one wrote), the entry of every declaration renderer  *)
(* and the begin / end of every module are replayed, one event per step,   *)
(* through the actions of TodoFlush.tla.  `pending` is the specification's *)
(* variable; nothing but the event stream is taken from the code.          *)
(*   events: [e, k, out]   e in {begin, begin-reexports, enter, raise, flush, end} *)
(***************************************************************************)
EXTENDS Naturals, Sequences, FiniteSets, TLC, Json, IOUtils
VARIABLES pending, l, bad
T == INSTANCE TodoFlush WITH Tier <- "quick", sc <- 0, ip <- 0, toRaise <- {}, todo <- <<>>, pc <- ""
Ev == JsonDeserialize(IOEnv.OBS_FILE)
ToSet(seq) == { seq[j] : j \in 1..Len(seq) }
B(clause, sig, exp, obs) == [property |-> "C20", clause |-> clause, sig |-> sig, expected |-> exp, observed |-> obs]
Kinds(S) == ToString(S)

TInit == pending = {} /\ l = 1 /\ bad = {}
Begin(ev) ==       \* a module starts: the generator resets its pending set
  /\ ev.e = "begin" /\ pending' = {} /\ bad' = {}
BeginReexports(ev) ==   \* the re-export pass starts without a reset: nothing may be pending
  /\ ev.e = "begin-reexports" /\ UNCHANGED pending
  /\ bad' = IF pending = {} THEN {} ELSE { B("NoLeak", "trace:pending-when-re-export-pass-starts", "{}", Kinds(pending)) }
Enter(ev) ==       \* a declaration starts to be rendered: whatever is pending would be written in front of the wrong declaration
  /\ ev.e = "enter" /\ UNCHANGED pending
  /\ bad' = IF pending = {} THEN {}
            ELSE { B("PendingOnlyOwn", "trace:pending-at-entry-of:" \o ev.k \o ":" \o Kinds(pending), "{}", Kinds(pending)) }
Raise(ev) == ev.e = "raise" /\ T!DoRaise(ev.k) /\ bad' = {}
Flush(ev) ==       \* the flush writes exactly the pending set and empties it
  /\ ev.e = "flush"
  /\ LET out == ToSet(ev.out) IN
       \/ T!DoFlush(out) /\ bad' = {}
       \/ /\ out # pending /\ pending' = {}
          /\ bad' = { B("Exact", "trace:flush-differs-from-pending", Kinds(pending), Kinds(out)) }
End(ev) ==
  /\ ev.e = "end" /\ UNCHANGED pending
  /\ bad' = IF pending = {} THEN {} ELSE { B("NoLeak", "trace:pending-at-end-of-module:" \o Kinds(pending), "{}", Kinds(pending)) }
TNext == /\ l <= Len(Ev) /\ l' = l + 1
         /\ LET ev == Ev[l] IN Begin(ev) \/ BeginReexports(ev) \/ Enter(ev) \/ Raise(ev) \/ Flush(ev) \/ End(ev)
TSpec == TInit /\ [][TNext]_<<pending, l, bad>>
Report == bad = {} \/ PrintT(ToJson([id |-> l - 1, bad |-> bad]))
AllConsumed == TLCGet("stats").diameter - 1 = Len(Ev)
=============================================================================
