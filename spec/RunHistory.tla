------------------------------ MODULE RunHistory ------------------------------
(***************************************************************************)
(* C16 - stub generation neither mutates the API model nor depends on      *)
(* earlier generations.   (Also the run-level histories used by C08/C18.)  *)
(*                                                                         *)
(* State: the API model (abstracted to the parts generation could touch:   *)
(* literal lists, declaration names, tuple kinds), the generator's scratch *)
(* state, the texts of the last generation and the output directory.       *)
(* Operations of a history: GenSame (generate again with the same          *)
(* generator object), GenFresh (new generator on the same model), Run      *)
(* (whole CLI run into the output directory).                              *)
(* In the promised design rendering reads the model and per-generation     *)
(* scratch state only.                                                     *)
(***************************************************************************)
EXTENDS Naturals, Sequences, FiniteSets, TLC, Json

CONSTANTS MaxOps
Features == {"literal-none", "varargs-tuple", "alias-reexport", "foreign", "inherited-twice",
             "abstract-class",     \* classes that list abc.ABC (alone and next to other bases), one of them nested in a private class that two public classes inherit
             "package-newtype",    \* a NewType of the package (no class of the model) used as a type in its own module and in another one
             "two-reexporters"}    \* a class re-exported by a deeper package that sorts before a shallower one (the model lists them in id order)
Packages == { {f} : f \in Features } \cup { Features }
Ops == {"gen-same", "gen-fresh"}

Model(p) == [ literals |-> IF "literal-none" \in p THEN <<"z", "null">> ELSE <<>>,
              names |-> IF "alias-reexport" \in p THEN <<"Hidden">> ELSE <<"Plain">>,
              kinds |-> IF "varargs-tuple" \in p THEN <<"TupleType">> ELSE <<>> ]
Render(m, scratch) == [ text |-> <<m.literals, m.names, m.kinds>>, deferred |-> scratch ]   \* a function of the model only

VARIABLES pkg, api, scratch, texts, hist
vars == <<pkg, api, scratch, texts, hist>>
Init == pkg \in Packages /\ api = Model(pkg) /\ scratch = <<>> /\ texts = <<>> /\ hist = <<>>
Gen(op) ==
  /\ Len(hist) < MaxOps
  /\ LET s == IF op = "gen-fresh" THEN <<>> ELSE <<>>     \* scratch state is reset at the start of every generation, fresh object or not
     IN /\ texts' = Append(texts, Render(api, s).text)
        /\ scratch' = s
  /\ api' = api                                          \* generation reads the model
  /\ hist' = Append(hist, op) /\ UNCHANGED pkg
Next == \E op \in Ops : Gen(op)
Spec == Init /\ [][Next]_vars
Inv_C16_Pure == api = Model(pkg)
Inv_C16_Idem == \A a, b \in 1..Len(texts) : texts[a] = texts[b]
Emit == Len(hist) = MaxOps => PrintT(ToJson([pkg |-> pkg, hist |-> hist]))

(***************************************************************************)
(* Judging a replay.                                                       *)
(* obs = [pkg, hist, api: Seq digest (before first op, then after each op), texts: Seq digest (per generation),        *)
(*        dupfiles: Seq Nat (virtual files beyond the distinct paths, per generation), same: Seq [a, b] (renderings of one member)] *)
(***************************************************************************)
ToSet(seq) == { seq[j] : j \in 1..Len(seq) }
FeatureSig(p) == IF Len(p) = 1 THEN p[1] ELSE "all-features"
JudgeReplay(obs) ==
  LET fs == FeatureSig(obs.pkg) IN
     { [property |-> "C16", clause |-> "Pure", sig |-> "model-mutated:" \o fs \o ":by-" \o obs.hist[j - 1], expected |-> obs.api[1], observed |-> obs.api[j]]
         : j \in { j \in 2..Len(obs.api) : obs.api[j] # obs.api[j - 1] } }
  \cup { [property |-> "C16", clause |-> "Idem", sig |-> "texts-differ:" \o fs \o ":" \o obs.hist[j] \o "-after-" \o obs.hist[j - 1], expected |-> obs.texts[1], observed |-> obs.texts[j]]
         : j \in { j \in 2..Len(obs.texts) : obs.texts[j] # obs.texts[1] } }
  \cup { [property |-> "C16", clause |-> "Idem", sig |-> "duplicate-virtual-files:" \o fs \o ":" \o obs.hist[j], expected |-> "0", observed |-> ToString(obs.dupfiles[j])]
         : j \in { j \in 1..Len(obs.dupfiles) : obs.dupfiles[j] # 0 } }
  \cup { [property |-> "C16", clause |-> "SameEverywhere", sig |-> "inherited-member-renders-differently:" \o fs, expected |-> obs.same[j].a, observed |-> obs.same[j].b]
         : j \in { j \in 1..Len(obs.same) : obs.same[j].a # obs.same[j].b } }
(* obs = [pkg, first, second, fresh]: digests of the output tree after run 1, after run 2 into the same directory, after a run into an empty one *)
JudgeRerun(obs) ==
  (IF obs.second # obs.first THEN { [property |-> "C16", clause |-> "Rerun", sig |-> "second-run-differs:" \o FeatureSig(obs.pkg), expected |-> obs.first, observed |-> obs.second] } ELSE {})
  \cup (IF obs.fresh # obs.first THEN { [property |-> "C16", clause |-> "Rerun", sig |-> "populated-vs-empty:" \o FeatureSig(obs.pkg), expected |-> obs.first, observed |-> obs.fresh] } ELSE {})
=============================================================================
