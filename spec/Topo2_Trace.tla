------------------------------ MODULE Topo2_Trace ------------------------------
(* Trace validation for universe U2 (two declarations, interacting re-exports). *)
EXTENDS Naturals, Sequences, TLC, Json, IOUtils
P == INSTANCE Package2 WITH sc <- 0, placed <- {}, pc <- ""
Obs == JsonDeserialize(IOEnv.OBS_FILE)
VARIABLES n, bad
TInit == n = 0 /\ bad = {}
TNext == /\ n < Len(Obs)
         /\ n' = n + 1
         /\ bad' = P!Judge(Obs[n + 1].sc, Obs[n + 1].obs)
TSpec == TInit /\ [][TNext]_<<n, bad>>
Report == bad = {} \/ PrintT(ToJson([id |-> Obs[n].id, bad |-> bad]))
AllConsumed == TLCGet("stats").diameter - 1 = Len(Obs)
=============================================================================
