----------------------------- MODULE SdsGrammar -----------------------------
(***************************************************************************)
(* C02 - every emitted stub file is syntactically valid Safe-DS.           *)
(*                                                                         *)
(* A push-down recogniser of the stub grammar over token classes (ID, QID  *)
(* = back-quoted identifier, KW:<keyword>, STRING, INT, FLOAT, P:<punct>,  *)
(* EOF; BAD:<reason> for lexical errors).  The grammar is LL(1): Alt(nt,   *)
(* la) is the production chosen for nonterminal nt under lookahead la.     *)
(* One action per token: the stack is expanded until its top is a          *)
(* terminal, which must equal the token.  A keyword that is used as a name *)
(* without back-quotes arrives as KW:<keyword> where an identifier is      *)
(* expected and has no transition.                                         *)
(***************************************************************************)
EXTENDS Naturals, Sequences, FiniteSets, TLC, Json

IsNT(x) == Len(x) > 1 /\ SubSeq(x, 1, 1) = "<"
IdentTok == {"ID", "QID"}
MemberFirst == {"P:@", "KW:class", "KW:fun", "KW:attr", "KW:enum", "KW:static"}
ExprFirst == {"STRING", "INT", "FLOAT", "P:-", "KW:true", "KW:false", "KW:null", "KW:unknown", "P:[", "P:{"}
TypeFirst == {"KW:union", "KW:literal", "KW:unknown", "ID", "QID", "P:("}
Reject == << "@reject" >>

Alt(nt, la) ==
  CASE nt = "<File>" -> << "<Anns>", "KW:package", "<QName>", "<Imports>", "<Members>", "EOF" >>
    [] nt = "<Anns>" -> IF la = "P:@" THEN << "P:@", "<Ident>", "<AnnArgs>", "<Anns>" >> ELSE <<>>
    [] nt = "<AnnArgs>" -> IF la = "P:(" THEN << "P:(", "<AnnArgList>", "P:)" >> ELSE <<>>
    [] nt = "<AnnArgList>" -> IF la \in ExprFirst THEN << "<Expr>" >> ELSE <<>>
    [] nt = "<Ident>" -> IF la \in IdentTok THEN << la >> ELSE Reject
    [] nt = "<QName>" -> << "<Ident>", "<QNameTail>" >>
    [] nt = "<QNameTail>" -> IF la = "P:." THEN << "P:.", "<Ident>", "<QNameTail>" >> ELSE <<>>
    [] nt = "<Imports>" -> IF la = "KW:from" THEN << "KW:from", "<QName>", "KW:import", "<Ident>", "<ImportAlias>", "<Imports>" >> ELSE <<>>
    [] nt = "<ImportAlias>" -> IF la = "KW:as" THEN << "KW:as", "<Ident>" >> ELSE <<>>
    [] nt = "<Members>" -> IF la \in MemberFirst THEN << "<Member>", "<Members>" >> ELSE <<>>
    [] nt = "<Member>" -> << "<Anns>", "<MemberCore>" >>
    [] nt = "<MemberCore>" ->
         CASE la = "KW:class" -> << "KW:class", "<Class>" >> [] la = "KW:fun" -> << "KW:fun", "<Fun>" >> [] la = "KW:attr" -> << "KW:attr", "<Attr>" >>
           [] la = "KW:enum" -> << "KW:enum", "<Enum>" >> [] la = "KW:static" -> << "KW:static", "<StaticCore>" >> [] OTHER -> Reject
    [] nt = "<StaticCore>" -> CASE la = "KW:fun" -> << "KW:fun", "<Fun>" >> [] la = "KW:attr" -> << "KW:attr", "<Attr>" >> [] OTHER -> Reject
    [] nt = "<Class>" -> << "<Ident>", "<TypeParams>", "<ClassParams>", "<Supers>", "<ClassBody>" >>
    [] nt = "<TypeParams>" -> IF la = "P:<" THEN << "P:<", "<TypeParam>", "<TypeParamTail>", "P:>" >> ELSE <<>>
    [] nt = "<TypeParam>" -> << "<Variance>", "<Ident>", "<Bound>" >>
    [] nt = "<Variance>" -> IF la \in {"KW:in", "KW:out"} THEN << la >> ELSE <<>>
    [] nt = "<Bound>" -> IF la = "KW:sub" THEN << "KW:sub", "<Type>" >> ELSE <<>>
    [] nt = "<TypeParamTail>" -> IF la = "P:," THEN << "P:,", "<TypeParam>", "<TypeParamTail>" >> ELSE <<>>
    [] nt = "<ClassParams>" -> IF la = "P:(" THEN << "<Params>" >> ELSE <<>>
    [] nt = "<Params>" -> << "P:(", "<ParamList>", "P:)" >>
    [] nt = "<ParamList>" -> IF la \in IdentTok \cup {"P:@"} THEN << "<Param>", "<ParamTail>" >> ELSE <<>>
    [] nt = "<ParamTail>" -> IF la = "P:," THEN << "P:,", "<Param>", "<ParamTail>" >> ELSE <<>>
    [] nt = "<Param>" -> << "<Anns>", "<Ident>", "<OptType>", "<OptDefault>" >>
    [] nt = "<OptType>" -> IF la = "P::" THEN << "P::", "<Type>" >> ELSE <<>>
    [] nt = "<OptDefault>" -> IF la = "P:=" THEN << "P:=", "<Expr>" >> ELSE <<>>
    [] nt = "<Supers>" -> IF la = "KW:sub" THEN << "KW:sub", "<Type>", "<TypeTail>" >> ELSE <<>>
    [] nt = "<TypeTail>" -> IF la = "P:," THEN << "P:,", "<Type>", "<TypeTail>" >> ELSE <<>>
    [] nt = "<ClassBody>" -> IF la = "P:{" THEN << "P:{", "<Members>", "P:}" >> ELSE <<>>
    [] nt = "<Fun>" -> << "<Ident>", "<TypeParams>", "<Params>", "<Results>" >>
    [] nt = "<Results>" -> IF la = "P:->" THEN << "P:->", "<ResultSpec>" >> ELSE <<>>
    [] nt = "<ResultSpec>" -> IF la = "P:(" THEN << "P:(", "<ResultList>", "P:)" >> ELSE << "<Result>" >>
    [] nt = "<ResultList>" -> IF la \in IdentTok \cup {"P:@"} THEN << "<Result>", "<ResultTail>" >> ELSE <<>>
    [] nt = "<ResultTail>" -> IF la = "P:," THEN << "P:,", "<Result>", "<ResultTail>" >> ELSE <<>>
    [] nt = "<Result>" -> << "<Anns>", "<Ident>", "P::", "<Type>" >>
    [] nt = "<Attr>" -> << "<Ident>", "<OptType>" >>
    [] nt = "<Enum>" -> << "<Ident>", "<EnumBody>" >>
    [] nt = "<EnumBody>" -> IF la = "P:{" THEN << "P:{", "<Variants>", "P:}" >> ELSE <<>>
    [] nt = "<Variants>" -> IF la \in IdentTok \cup {"P:@"} THEN << "<Anns>", "<Ident>", "<VariantParams>", "<Variants>" >> ELSE <<>>
    [] nt = "<VariantParams>" -> IF la = "P:(" THEN << "<Params>" >> ELSE <<>>
    [] nt = "<Type>" -> IF la \in IdentTok THEN << "<TypeCore>", "<Nullable>" >> ELSE << "<TypeCore>" >>     \* only a named type has a nullable form: `T?`, never `(...) -> ()?`, `union<..>?` or `literal<..>?`
    [] nt = "<Nullable>" -> IF la = "P:?" THEN << "P:?" >> ELSE <<>>
    [] nt = "<TypeCore>" ->
         CASE la = "KW:union" -> << "KW:union", "P:<", "<Type>", "<TypeTail>", "P:>" >>
           [] la = "KW:literal" -> << "KW:literal", "P:<", "<Expr>", "<ExprTail>", "P:>" >>
           [] la = "KW:unknown" -> << "KW:unknown" >>
           [] la \in IdentTok -> << "<Ident>", "<QNameTail>", "<TypeArgs>" >>
           [] la = "P:(" -> << "P:(", "<ParamList>", "P:)", "P:->", "<ResultSpec>" >>
           [] OTHER -> Reject
    [] nt = "<TypeArgs>" -> IF la = "P:<" THEN << "P:<", "<TypeArgList>", "P:>" >> ELSE <<>>
    [] nt = "<TypeArgList>" -> IF la \in TypeFirst THEN << "<Type>", "<TypeTail>" >> ELSE <<>>
    [] nt = "<Expr>" ->
         CASE la \in {"STRING", "INT", "FLOAT", "KW:true", "KW:false", "KW:null", "KW:unknown"} -> << la >>
           [] la = "P:-" -> << "P:-", "<Num>" >>
           [] la = "P:[" -> << "P:[", "P:]" >>
           [] la = "P:{" -> << "P:{", "P:}" >>
           [] OTHER -> Reject
    [] nt = "<Num>" -> IF la \in {"INT", "FLOAT"} THEN << la >> ELSE Reject
    [] nt = "<ExprTail>" -> IF la = "P:," THEN << "P:,", "<Expr>", "<ExprTail>" >> ELSE <<>>
    [] OTHER -> Reject

RECURSIVE Drive(_, _)
\* consume token t with stack s: the new stack, or <<"@reject", what was expected>>
Drive(s, t) ==
  IF s = <<>> THEN << "@reject", "end-of-input" >>
  ELSE LET top == Head(s) IN
       IF top = "@reject" THEN s
       ELSE IF IsNT(top) THEN (LET a == Alt(top, t) IN IF a = Reject THEN << "@reject", top >> ELSE Drive(a \o Tail(s), t))
       ELSE IF top = t THEN Tail(s) ELSE << "@reject", top >>
Rejected(s) == s # <<>> /\ Head(s) = "@reject"

(***************************************************************************)
(* Design checks: the recogniser run over a set of reference token         *)
(* streams (accepted and rejected ones) - its own regression suite.        *)
(***************************************************************************)
Good == {
  << "KW:package", "ID", "EOF" >>,
  << "P:@", "ID", "P:(", "STRING", "P:)", "KW:package", "ID", "P:.", "ID", "KW:from", "ID", "P:.", "QID", "KW:import", "ID", "KW:class", "ID", "EOF" >>,
  << "KW:package", "ID", "P:@", "ID", "KW:fun", "QID", "P:<", "ID", "KW:sub", "ID", "P:>", "P:(", "P:@", "ID", "P:(", "STRING", "P:)", "ID", "P::", "ID", "P:?", "P:=", "P:-", "INT",
     "P:,", "ID", "P:)", "P:->", "P:(", "ID", "P::", "KW:union", "P:<", "ID", "P:,", "KW:literal", "P:<", "STRING", "P:,", "KW:null", "P:>", "P:>", "P:)", "EOF" >>,
  << "KW:package", "ID", "KW:class", "ID", "P:<", "KW:out", "ID", "P:>", "P:(", "P:)", "KW:sub", "ID", "P:,", "ID", "P:{", "KW:static", "KW:attr", "ID", "P::", "ID", "P:<", "ID", "P:>",
     "KW:enum", "ID", "P:{", "ID", "ID", "P:}", "KW:attr", "ID", "P:}", "EOF" >>,
  << "KW:package", "ID", "KW:fun", "ID", "P:(", "ID", "P::", "P:(", "ID", "P::", "ID", "P:)", "P:->", "P:(", "P:)", "P:)", "EOF" >> }
Bad == {
  << "KW:package", "ID", "KW:fun", "KW:val", "P:(", "P:)", "EOF" >>,                 \* keyword as a name without back-quotes
  << "KW:package", "ID", "KW:fun", "ID", "P:(", "ID", "P:=", "BAD:unterminated-string" >>,
  << "KW:package", "KW:from", "KW:import", "ID", "EOF" >>,                            \* empty package / import path
  << "KW:package", "ID", "KW:class", "ID", "P:{", "EOF" >>,                           \* unclosed brace
  << "KW:package", "ID", "KW:fun", "P:(", "P:)", "EOF" >>,                            \* empty identifier
  << "KW:package", "ID", "KW:attr", "ID", "P::", "ID", "P:<", "ID", "EOF" >> }
VARIABLES input, pos, stack
vars == <<input, pos, stack>>
Init == input \in Good \cup Bad /\ pos = 1 /\ stack = << "<File>" >>
Step == /\ pos <= Len(input) /\ ~Rejected(stack)
        /\ stack' = Drive(stack, input[pos]) /\ pos' = pos + 1 /\ UNCHANGED input
Next == Step
Spec == Init /\ [][Next]_vars /\ WF_vars(Next)
Finished == pos > Len(input) \/ Rejected(stack)
Accepted == pos > Len(input) /\ stack = <<>>
Inv_C02_GoodAccepted == (Finished /\ input \in Good) => Accepted
Inv_C02_BadRejected == (Finished /\ input \in Bad) => ~Accepted
Inv_C02_StackBounded == Len(stack) <= 60
Live_Finishes == <>Finished
=============================================================================
