SPECIFICATION Spec
INVARIANT Inv_C03_ExactlyOnce2
INVARIANT Inv_C03_Home2
INVARIANT Emit
PROPERTY Live_Done
CHECK_DEADLOCK FALSE
