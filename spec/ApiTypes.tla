------------------------------ MODULE ApiTypes ------------------------------
(***************************************************************************)
(* C19 - API type values obey round-trip, equality and hashing laws.       *)
(*                                                                         *)
(* Terms over the 14 constructors are records [k, n, a, v]: constructor,   *)
(* name, argument terms, scalar values.  The module gives the intended     *)
(* algebra (Eq, HashKey, ToDict, FromDict) and checks the laws on it; it   *)
(* emits terms and *related* pairs (permutations, duplicated elements,     *)
(* one element replaced, boundary twins) that are replayed on the real     *)
(* classes.  The verdict on the implementation is the laws evaluated on    *)
(* the logged results of to_dict / from_dict / == / hash.                  *)
(***************************************************************************)
EXTENDS Naturals, Sequences, FiniteSets, TLC, Json

CONSTANTS Tier

T(k, n, a, v) == [k |-> k, n |-> n, a |-> a, v |-> v]
Leaves ==
  { T("UnknownType", "", <<>>, <<>>), T("NamedType", "A", <<>>, <<>>), T("NamedType", "B", <<>>, <<>>),
    T("EnumType", "", <<>>, <<"x">>), T("EnumType", "", <<>>, <<"x", "y">>),
    T("BoundaryType", "float", <<>>, <<"0", "1", "in", "in">>), T("BoundaryType", "float", <<>>, <<"0", "1", "in", "ex">>),
    T("BoundaryType", "int", <<>>, <<"0", "Infinity", "in", "in">>), T("BoundaryType", "int", <<>>, <<"0", "Infinity", "in", "ex">>),
    T("BoundaryType", "int", <<>>, <<"NegativeInfinity", "5", "ex", "in">>), T("BoundaryType", "float", <<>>, <<"NegativeInfinity", "Infinity", "in", "in">>),
    T("BoundaryType", "int", <<>>, <<"NegativeInfinity", "5", "in", "ex">>),
    T("LiteralType", "", <<>>, <<"i:1">>), T("LiteralType", "", <<>>, <<"s:a">>), T("LiteralType", "", <<>>, <<"i:1", "s:a">>),
    T("LiteralType", "", <<>>, <<"s:a", "i:1">>), T("LiteralType", "", <<>>, <<"b:true">>), T("LiteralType", "", <<>>, <<"s:a", "s:a">>),
    \* values that Python counts as false, and None
    T("LiteralType", "", <<>>, <<"i:0">>), T("LiteralType", "", <<>>, <<"b:false">>), T("LiteralType", "", <<>>, <<"s:">>), T("LiteralType", "", <<>>, <<"i:0", "i:1">>),
    T("LiteralType", "", <<>>, <<"s:", "s:a">>), T("LiteralType", "", <<>>, <<"n:">>), T("LiteralType", "", <<>>, <<"s:a", "n:">>),
    T("TypeVarType", "T", <<>>, <<>>) }
SmallLeaves == { T("NamedType", "A", <<>>, <<>>), T("NamedType", "B", <<>>, <<>>), T("LiteralType", "", <<>>, <<"i:1", "s:a">>),
                 T("EnumType", "", <<>>, <<"x", "y">>), T("BoundaryType", "int", <<>>, <<"0", "Infinity", "in", "ex">>) }
SeqKinds == {"ListType", "SetType", "TupleType", "UnionType"}

Build(S) ==
  LET s == S IN
     { T(k, "", <<x>>, <<>>) : k \in SeqKinds \cup {"FinalType"}, x \in s }
  \cup { T(k, "", <<x, y>>, <<>>) : k \in SeqKinds \cup {"DictType", "CallableType"}, x \in s, y \in s }
  \cup { T("CallableType", "", <<x>>, <<>>) : x \in s }                         \* no parameters, return x
  \cup { T("CallableType", "", <<x, y, z>>, <<>>) : x \in s \cap SmallLeaves, y \in s \cap SmallLeaves, z \in {T("NamedType", "A", <<>>, <<>>)} }   \* two parameters
  \cup { T("NamedSequenceType", "Seq", <<x>>, <<>>) : x \in s } \cup { T("NamedSequenceType", "Seq", <<x, y>>, <<>>) : x \in s, y \in s }
  \cup { T("TypeVarType", "T", <<x>>, <<>>) : x \in s }                         \* bounded type variable
  \cup { T(k, "", <<>>, <<>>) : k \in SeqKinds }
Unary(S) == LET s == S IN { T(k, "", <<x>>, <<>>) : k \in SeqKinds \cup {"FinalType"}, x \in s }
                          \cup { T("NamedSequenceType", "Seq", <<x>>, <<>>) : x \in s } \cup { T("TypeVarType", "T", <<x>>, <<>>) : x \in s }
                          \cup { T("CallableType", "", <<x>>, <<>>) : x \in s }
Terms(tier) ==
  LET d1 == Leaves \cup Build(Leaves)
      tiny == { T("NamedType", "A", <<>>, <<>>), T("LiteralType", "", <<>>, <<"i:1", "s:a">>) }
      d2 == Unary(Build(SmallLeaves)) \cup Build(Unary(tiny) \cup tiny)
  IN IF tier = "quick" THEN d1 \cup d2
     ELSE d1 \cup d2 \cup Build(Unary(SmallLeaves) \cup SmallLeaves) \cup Unary(Unary(Unary(tiny)))

(* related terms of a *)
Swap(t) == IF Len(t.a) = 2 THEN { [t EXCEPT !.a = << t.a[2], t.a[1] >>] }
           ELSE IF Len(t.a) = 3 /\ t.k = "CallableType" THEN { [t EXCEPT !.a = << t.a[2], t.a[1], t.a[3] >>] }     \* the two parameters swapped
           ELSE {}
Dup(t) == IF Len(t.a) = 1 /\ t.k \in SeqKinds \cup {"NamedSequenceType"} THEN { [t EXCEPT !.a = << t.a[1], t.a[1] >>] } ELSE {}
Replace(t) == IF Len(t.a) >= 1 THEN { [t EXCEPT !.a[1] = T("NamedType", "Z", <<>>, <<>>)] } ELSE {}
OtherKind(t) == IF t.k \in SeqKinds THEN { [t EXCEPT !.k = k2] : k2 \in SeqKinds \ {t.k} } ELSE {}
SwapV(t) == IF Len(t.v) = 2 /\ t.k \in {"LiteralType", "EnumType"} THEN { [t EXCEPT !.v = << t.v[2], t.v[1] >>] } ELSE {}
Twin(t) == IF t.k = "BoundaryType" THEN { [t EXCEPT !.v[4] = IF t.v[4] = "in" THEN "ex" ELSE "in"], [t EXCEPT !.v[3] = IF t.v[3] = "in" THEN "ex" ELSE "in"] } ELSE {}
(* the same class once plain and once with type arguments (Crate / Crate[int]): two constructors that share name and qualified name *)
SameName(t) == IF t.k = "NamedSequenceType" THEN { T("NamedType", t.n, <<>>, <<>>) }
               ELSE IF t.k = "NamedType" THEN { T("NamedSequenceType", t.n, << T("NamedType", "B", <<>>, <<>>) >>, <<>>) } ELSE {}
(* a literal 1 / 0 next to the literal True / False: Python's == identifies them, so whatever == says, the hashes must follow it *)
BoolInt(t) == IF t.k = "LiteralType" THEN { [t EXCEPT !.v = [ j \in 1..Len(t.v) |-> IF t.v[j] = "i:1" THEN "b:true" ELSE IF t.v[j] = "b:true" THEN "i:1" ELSE t.v[j] ]] } \ {t} ELSE {}
Related(t) == BoolInt(t) \cup {t} \cup Swap(t) \cup Dup(t) \cup Replace(t) \cup OtherKind(t) \cup SwapV(t) \cup Twin(t) \cup SameName(t)

(* ---- the intended algebra ---- *)
\* a canonical, order-free key of a term: sequence-like constructors compare their elements as multisets
RECURSIVE Key(_)
Count(seq, x) == Cardinality({ j \in 1..Len(seq) : seq[j] = x })
Key(t) ==
  LET ks == [ j \in 1..Len(t.a) |-> Key(t.a[j]) ]
      multiset(seq) == { <<seq[j], Count(seq, seq[j])>> : j \in 1..Len(seq) }
  IN CASE t.k \in SeqKinds \cup {"NamedSequenceType"} -> [k |-> t.k, n |-> t.n, ord |-> <<>>, bag |-> multiset(ks), v |-> {}]
       [] t.k = "CallableType" -> [k |-> t.k, n |-> "", ord |-> << ks[Len(ks)] >>, bag |-> multiset(SubSeq(ks, 1, Len(ks) - 1)), v |-> {}]
       [] t.k \in {"LiteralType"} -> [k |-> t.k, n |-> "", ord |-> <<>>, bag |-> {}, v |-> multiset(t.v)]
       [] t.k = "EnumType" -> [k |-> t.k, n |-> "", ord |-> <<>>, bag |-> {}, v |-> { <<t.v[j], 1>> : j \in 1..Len(t.v) }]
       [] t.k = "BoundaryType" ->      \* an infinite upper bound cannot be inclusive or exclusive: the flag is irrelevant there
            [k |-> t.k, n |-> t.n, ord |-> <<>>, bag |-> {},
             v |-> { <<"min", 1>>, <<t.v[1], 2>>, <<t.v[2], 3>>, <<t.v[3], 4>>, <<IF t.v[2] = "Infinity" THEN "-" ELSE t.v[4], 5>> }]
       [] OTHER -> [k |-> t.k, n |-> t.n, ord |-> ks, bag |-> {}, v |-> {}]
Bag(t) == Key(t)
Eq(a, b) == Key(a) = Key(b)
HashKey(t) == Key(t)         \* any function of Key is a lawful hash
ToDict(t) == t               \* the dictionary form carries the same information
FromDict(d) == d

VARIABLES pair, phase
vars == <<pair, phase>>
Init == /\ \E t \in Terms(Tier) : \E u \in Related(t) : pair = <<t, u>>
        /\ phase = "built"
Exercise == phase = "built" /\ phase' = "exercised" /\ UNCHANGED pair
Next == Exercise
Spec == Init /\ [][Next]_vars

Inv_C19_RoundTrip == Eq(FromDict(ToDict(pair[1])), pair[1])
Inv_C19_Stable == ToDict(FromDict(ToDict(pair[1]))) = ToDict(pair[1])
Inv_C19_Refl == Eq(pair[1], pair[1])
Inv_C19_Sym == Eq(pair[1], pair[2]) = Eq(pair[2], pair[1])
Inv_C19_EqHash == Eq(pair[1], pair[2]) => HashKey(pair[1]) = HashKey(pair[2])
Inv_C19_OrderFree == \A u \in Swap(pair[1]) : (pair[1].k \in SeqKinds \cup {"NamedSequenceType"}) => (Eq(pair[1], u) /\ HashKey(pair[1]) = HashKey(u))
Emit == phase = "exercised" => PrintT(ToJson([a |-> pair[1], b |-> pair[2]]))

(***************************************************************************)
(* Judging the logged results of the real classes for one pair.            *)
(* obs = [rt, stable, refl, eq_ab, eq_ba, hash_eq: each "true" | "false" | "exc:<Type>"] *)
(***************************************************************************)
Rel(a, b) == IF a = b THEN "same"
             ELSE IF b \in Swap(a) \cup SwapV(a) THEN "permuted"
             ELSE IF b \in Dup(a) THEN "duplicated-element"
             ELSE IF b \in Twin(a) THEN "boundary-twin"
             ELSE IF b \in OtherKind(a) THEN "other-constructor" ELSE IF b \in SameName(a) THEN "same-name-other-constructor" ELSE IF b \in BoolInt(a) THEN "int-vs-bool-literal" ELSE "element-replaced"
Inner(t) == IF Len(t.a) = 0 THEN "" ELSE "<" \o t.a[1].k \o ">"
Judge(p, obs) ==
  LET a == p.a
      b == p.b
      law(name, ok, sigx, o) == IF ok THEN {} ELSE { [property |-> "C19", clause |-> name, sig |-> sigx, expected |-> "law holds", observed |-> o] }
  IN law("RoundTrip", obs.rt = "true", a.k \o Inner(a) \o (IF obs.rt = "false" THEN ":unequal" ELSE ":" \o obs.rt), obs.rt)
     \cup law("Stable", obs.stable = "true" \/ obs.rt # "true", a.k \o Inner(a) \o ":" \o obs.stable, obs.stable)
     \cup law("EqHash", obs.rt # "true" \/ obs.hash_rt = "true", a.k \o Inner(a) \o ":round-trip:" \o obs.hash_rt, obs.hash_rt)
     \cup law("Refl", obs.refl = "true", a.k \o ":" \o obs.refl, obs.refl)
     \cup law("Sym", obs.eq_ab = obs.eq_ba, a.k \o "~" \o b.k \o ":" \o Rel(a, b), obs.eq_ab \o "/" \o obs.eq_ba)
     \cup law("EqHash", obs.eq_ab # "true" \/ obs.hash_eq = "true", a.k \o Inner(a) \o ":" \o Rel(a, b) \o ":" \o obs.hash_eq, obs.hash_eq)
=============================================================================
