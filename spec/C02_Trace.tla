------------------------------ MODULE C02_Trace ------------------------------
(* Trace validation for C02: the token classes of every stub file of real runs are fed through SdsGrammar's recogniser. *)
EXTENDS Naturals, Sequences, TLC, Json, IOUtils
G == INSTANCE SdsGrammar WITH input <- <<>>, pos <- 0, stack <- <<>>
Obs == JsonDeserialize(IOEnv.OBS_FILE)          \* Seq of [id, kind, toks: Seq of token classes, ending with EOF]
VARIABLES f, l, st, bad
TInit == f = 1 /\ l = 1 /\ st = << "<File>" >> /\ bad = {}
NextFile == /\ f' = f + 1 /\ l' = 1 /\ st' = << "<File>" >>
TNext ==
  /\ f <= Len(Obs)
  /\ LET toks == Obs[f].toks
         s2 == G!Drive(st, toks[l])
     IN IF G!Rejected(s2)
        THEN /\ bad' = { [property |-> "C02", clause |-> "Parses",
                          sig |-> Obs[f].kind \o ":expected-" \o s2[2] \o ":got-" \o toks[l],
                          expected |-> s2[2], observed |-> toks[l] \o " at token " \o ToString(l)] }
             /\ NextFile
        ELSE IF l = Len(toks)
             THEN /\ bad' = (IF s2 = <<>> THEN {} ELSE { [property |-> "C02", clause |-> "Parses", sig |-> Obs[f].kind \o ":incomplete", expected |-> s2[1], observed |-> "end of file"] })
                  /\ NextFile
             ELSE /\ bad' = {} /\ f' = f /\ l' = l + 1 /\ st' = s2
TSpec == TInit /\ [][TNext]_<<f, l, st, bad>>
Report == bad = {} \/ PrintT(ToJson([id |-> Obs[f - 1].id, bad |-> bad]))
AllConsumed == TLCGet("distinct") > 0
=============================================================================
