SPECIFICATION Spec
CONSTANT Tier = "thorough"
INVARIANT Inv_C17_Once
INVARIANT Inv_C17_All
INVARIANT Inv_C17_Precedence
INVARIANT Emit
PROPERTY Live_Done
CHECK_DEADLOCK FALSE
