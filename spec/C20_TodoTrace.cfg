SPECIFICATION TSpec
INVARIANT Report
POSTCONDITION AllConsumed
CHECK_DEADLOCK FALSE
