SPECIFICATION Spec
CONSTANT Tier = "quick"
INVARIANT Inv_C01_NoCrash
INVARIANT Inv_C01_Outcome
INVARIANT Inv_C01_TotalReturn
INVARIANT Inv_C01_TotalInit
INVARIANT EmitFeatures
PROPERTY Live_C01
CHECK_DEADLOCK FALSE
