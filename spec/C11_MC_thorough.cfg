SPECIFICATION Spec
CONSTANT Tier = "thorough"
INVARIANT Inv_C11_Closed
INVARIANT Inv_C11_Resolves
INVARIANT Emit
PROPERTY Live_Done
CHECK_DEADLOCK FALSE
