------------------------------ MODULE C16_Trace ------------------------------
(* Trace validation for C16: histories of generations replayed on real API objects, and repeated CLI runs. *)
EXTENDS Naturals, Sequences, TLC, Json, IOUtils
R == INSTANCE RunHistory WITH MaxOps <- 0, pkg <- {}, api <- 0, scratch <- <<>>, texts <- <<>>, hist <- <<>>
Obs == JsonDeserialize(IOEnv.OBS_FILE)
VARIABLES n, bad
TInit == n = 0 /\ bad = {}
TNext == /\ n < Len(Obs)
         /\ n' = n + 1
         /\ bad' = IF Obs[n + 1].kind = "replay" THEN R!JudgeReplay(Obs[n + 1].obs) ELSE R!JudgeRerun(Obs[n + 1].obs)
TSpec == TInit /\ [][TNext]_<<n, bad>>
Report == bad = {} \/ PrintT(ToJson([id |-> Obs[n].id, bad |-> bad]))
AllConsumed == TLCGet("stats").diameter - 1 = Len(Obs)
=============================================================================
