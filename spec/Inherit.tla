------------------------------- MODULE Inherit -------------------------------
(***************************************************************************)
(* C17 - members of private ancestors surface once in public subclasses.   *)
(*                                                                         *)
(* A hierarchy is a sequence of classes; class k may derive (ordered base  *)
(* list) from classes with a smaller index, so every hierarchy is a DAG.   *)
(* Each class is public or private and defines a subset of {m1, m2}.       *)
(* The generator renders a public class by emitting its own methods, then  *)
(* walking its private bases depth first, carrying the set of names that   *)
(* are already defined (machine below).                                    *)
(***************************************************************************)
EXTENDS Naturals, Sequences, FiniteSets, TLC, Json

CONSTANTS Tier
Meths == {"m1", "m2"}
Cls(pub, bases, ms) == [pub |-> pub, bases |-> bases, ms |-> ms]
BaseLists(k) ==    \* ordered base lists of class k over classes 1..k-1 (at most two bases)
  { <<>> } \cup { <<a>> : a \in 1..(k - 1) } \cup { p \in { <<a, b>> : a \in 1..(k - 1), b \in 1..(k - 1) } : p[1] # p[2] }
ClassesAt(k) == { Cls(p, b, m) : p \in BOOLEAN, b \in BaseLists(k), m \in SUBSET Meths }
RECURSIVE AncIdx(_, _, _)
AncIdx(h, k, d) == IF d = 0 THEN {} ELSE LET B == { h[k].bases[j] : j \in 1..Len(h[k].bases) } IN B \cup UNION { AncIdx(h, b, d - 1) : b \in B }
(* Python rejects a base list in which a class precedes one of its own subclasses (no consistent MRO) *)
LegalMRO(h) == \A k \in 1..Len(h) : \A i, j \in 1..Len(h[k].bases) : i < j => h[k].bases[i] \notin AncIdx(h, h[k].bases[j], Len(h))
Interesting(h) ==   \* some public class has a private base, and some private class defines a method
  /\ \E k \in 1..Len(h) : h[k].pub /\ \E j \in 1..Len(h[k].bases) : ~h[h[k].bases[j]].pub
  /\ \E k \in 1..Len(h) : ~h[k].pub /\ h[k].ms # {}
  /\ LegalMRO(h)
Hier3 == { h \in { <<a, b, c>> : a \in ClassesAt(1), b \in ClassesAt(2), c \in ClassesAt(3) } : Interesting(h) }
Hier4(dummy) ==   \* diamonds: class 4 derives from 2 and 3 (in either order), which derive from 1
  { h \in { <<a, b, c, d>> : a \in ClassesAt(1), b \in { x \in ClassesAt(2) : x.bases = <<1>> }, c \in { x \in ClassesAt(3) : x.bases \in { <<1>>, <<2>> } },
                             d \in { x \in ClassesAt(4) : x.bases \in { <<2, 3>>, <<3, 2>> } /\ x.pub } } : Interesting(h) }
(* decoy: the module also contains, *before* the hierarchy, an unrelated class with a nested class that has the same simple name as the
   private class 1 (with methods of its own).  It is no ancestor of anything, so it changes no expected fact. *)
(* aliased: the package __init__ re-exports the private class 1 under a public alias ('from .inha import _C1 as C1Shown'); the class keeps
   its private Python name, so its members still surface in its public subclasses - once. *)
Universe(tier) ==
  { [h |-> h, split |-> s, decoy |-> FALSE, aliased |-> FALSE] : h \in Hier3, s \in BOOLEAN }
  \cup { [h |-> h, split |-> FALSE, decoy |-> TRUE, aliased |-> FALSE] : h \in { x \in Hier3 : ~x[1].pub /\ x[1].ms # {} } }
  \cup { [h |-> h, split |-> s, decoy |-> FALSE, aliased |-> TRUE]
         : h \in { x \in Hier3 : ~x[1].pub /\ x[1].ms # {} /\ (tier # "quick" \/ (x[3].pub /\ x[3].ms \cap x[1].ms # {} /\ 1 \in AncIdx(x, 3, 3))) },
           s \in (IF tier = "quick" THEN {FALSE} ELSE BOOLEAN) }
  \* attrshadow: the public classes define their members as class attributes (of the same names) instead of methods; the hierarchy is also
  \* generated with naming conversion (the member names have an inner underscore)
  \cup { [h |-> h, split |-> FALSE, decoy |-> FALSE, aliased |-> FALSE, attrshadow |-> TRUE]
         : h \in { x \in Hier3 : ~x[1].pub /\ x[1].ms # {} /\ x[3].pub /\ x[3].ms \cap x[1].ms # {} /\ 1 \in AncIdx(x, 3, 3) } }
  \* viamodule: class 1 is a generic class of another module; the classes that derive from it name it through the module and subscript
  \* it (class X(inha_base.C1[int])) - another spelling of the same base class
  \cup { [h |-> h, split |-> TRUE, decoy |-> FALSE, aliased |-> FALSE, viamodule |-> TRUE]
         : h \in { x \in Hier3 : ~x[1].pub /\ x[1].ms # {} /\ x[3].pub /\ 1 \in AncIdx(x, 3, 3) /\ (tier # "quick" \/ x[2].ms = {}) } }
  \* abstract: every public class that has bases also lists abc.ABC (first or last in its base list): a class of another library that
  \* changes nothing about the members and the public superclasses of the package
  \cup { [h |-> h, split |-> FALSE, decoy |-> FALSE, aliased |-> FALSE, abstract |-> a]
         : h \in { x \in Hier3 : ~x[1].pub /\ x[1].ms # {} /\ x[3].pub /\ (tier # "quick" \/ x[2].ms = {}) }, a \in {"first", "last"} }
  \* methkind: the methods of the private classes are static methods or class methods (public methods like any other); the public
  \* classes define theirs as plain methods
  \cup { [h |-> h, split |-> s, decoy |-> FALSE, aliased |-> FALSE, methkind |-> mk]
         : h \in { x \in Hier3 : ~x[1].pub /\ x[1].ms # {} /\ x[3].pub /\ 1 \in AncIdx(x, 3, 3) /\ (tier # "quick" \/ x[1].ms = Meths) },
           s \in (IF tier = "quick" THEN {FALSE} ELSE BOOLEAN), mk \in {"static", "classmethod"} }
  \cup { [h |-> h, split |-> FALSE, decoy |-> FALSE, aliased |-> FALSE] : h \in (IF tier = "quick" THEN { x \in Hier4(0) : x[1].ms = {"m1"} /\ x[4].ms = {} } ELSE Hier4(0)) }

(* ---------- Appendix B.6 ---------- *)
BasesOf(h, k) == { h[k].bases[j] : j \in 1..Len(h[k].bases) }
RECURSIVE PrivAncAt(_, _, _)
\* private classes reachable from k through chains of private classes only, with the length of the shortest chain <= d
PrivAncAt(h, k, d) ==
  IF d = 0 THEN {} ELSE
  LET direct == { b \in BasesOf(h, k) : ~h[b].pub }
  IN direct \cup UNION { PrivAncAt(h, b, d - 1) : b \in direct }
PrivAnc(h, k) == PrivAncAt(h, k, Len(h))
Dist(h, k, a) == IF a = k THEN 0 ELSE CHOOSE d \in 1..Len(h) : a \in PrivAncAt(h, k, d) /\ (d = 1 \/ a \notin PrivAncAt(h, k, d - 1))
RECURSIVE AncAt(_, _, _)
AncAt(h, k, d) == IF d = 0 THEN {} ELSE BasesOf(h, k) \cup UNION { AncAt(h, b, d - 1) : b \in BasesOf(h, k) }
Anc(h, k) == AncAt(h, k, Len(h))

Required(h, k) == UNION { h[a].ms : a \in PrivAnc(h, k) \cup {k} }
Allowed(h, k) == UNION { h[a].ms : a \in Anc(h, k) \cup {k} }
Definers(h, k, m) == { a \in PrivAnc(h, k) \cup {k} : m \in h[a].ms }
Nearest(h, k, m) == { a \in Definers(h, k, m) : \A b \in Definers(h, k, m) : Dist(h, k, a) <= Dist(h, k, b) }
(* Python's own resolution order over the private part: depth-first, left to right, keeping the last occurrence *)
RECURSIVE Pre(_, _, _)
RECURSIVE PreSeq(_, _, _)
Pre(h, k, d) == IF d = 0 THEN <<k>> ELSE <<k>> \o PreSeq(h, SelectSeq(h[k].bases, LAMBDA b : ~h[b].pub), d - 1)
PreSeq(h, bs, d) == IF bs = <<>> THEN <<>> ELSE Pre(h, Head(bs), d) \o PreSeq(h, Tail(bs), d)
KeepLast(q) == LET keep == { i \in 1..Len(q) : \A j \in (i + 1)..Len(q) : q[j] # q[i] }
                   f[i \in 0..Len(q)] == IF i = 0 THEN <<>> ELSE IF i \in keep THEN Append(f[i - 1], q[i]) ELSE f[i - 1]
               IN f[Len(q)]
Mro(h, k) == KeepLast(Pre(h, k, Len(h)))
MroWinner(h, k, m) == LET q == Mro(h, k) IN q[CHOOSE i \in 1..Len(q) : m \in h[q[i]].ms /\ \A j \in 1..(i - 1) : m \notin h[q[j]].ms]
(* "nearer ancestors over farther ones": the nearest definer by distance, or the definer Python itself resolves to *)
Winners(h, k, m) == Nearest(h, k, m) \cup { MroWinner(h, k, m) }
DirectPublicBases(h, k) == SelectSeq(h[k].bases, LAMBDA b : h[b].pub)

(* ---------- the generator's walk for one public class ---------- *)
VARIABLES sc, cur, work, defined, shown, pc
vars == <<sc, cur, work, defined, shown, pc>>
PublicClasses(s) == { k \in 1..Len(s.h) : s.h[k].pub }
Init == /\ sc \in Universe(Tier) /\ cur \in PublicClasses(sc)
        /\ work = <<>> /\ defined = {} /\ shown = {} /\ pc = "own"
EmitOwn ==
  /\ pc = "own"
  /\ shown' = { <<m, cur>> : m \in sc.h[cur].ms } /\ defined' = sc.h[cur].ms
  /\ work' = SelectSeq(sc.h[cur].bases, LAMBDA b : ~sc.h[b].pub)       \* private bases, in declaration order
  /\ pc' = "inline" /\ UNCHANGED <<sc, cur>>
InlineNext ==       \* breadth first over private ancestors: nearer ancestors win
  /\ pc = "inline" /\ work # <<>>
  /\ LET a == Head(work)
         new == sc.h[a].ms \ defined
     IN /\ shown' = shown \cup { <<m, a>> : m \in new }
        /\ defined' = defined \cup new
        /\ work' = Tail(work) \o SelectSeq(sc.h[a].bases, LAMBDA b : ~sc.h[b].pub)
  /\ UNCHANGED <<sc, cur, pc>>
Finish == pc = "inline" /\ work = <<>> /\ pc' = "done" /\ UNCHANGED <<sc, cur, work, defined, shown>>
Next == EmitOwn \/ InlineNext \/ Finish
Spec == Init /\ [][Next]_vars /\ WF_vars(Next)

Inv_C17_Once == \A m \in Meths : Cardinality({ x \in shown : x[1] = m }) <= 1
Inv_C17_All == pc = "done" => { x[1] : x \in shown } = Required(sc.h, cur)
Inv_C17_Precedence == pc = "done" => \A x \in shown : x[2] \in Winners(sc.h, cur, x[1])
Live_Done == <>(pc = "done")
Emit == (pc = "done" /\ cur = CHOOSE k \in PublicClasses(sc) : TRUE) => PrintT(ToJson(sc))

(***************************************************************************)
(* Judging a real run: one observation per public class.                   *)
(* obs = [missing, k, meths: Seq [name, origin], supers: Seq of class indices (0 = unknown), unimported: Seq] *)
(***************************************************************************)
ToSet(seq) == { seq[j] : j \in 1..Len(seq) }
IsSubseq(s, t) ==   \* s (without duplicates) occurs in t in the same order
  \A a, b \in 1..Len(s) : a < b => \E x, y \in 1..Len(t) : x < y /\ t[x] = s[a] /\ t[y] = s[b]
ShapeS(s, k) == (IF s.aliased THEN ":private-ancestor-re-exported-under-public-alias" ELSE "") \o (IF "attrshadow" \in DOMAIN s THEN ":own-attribute-shadows" ELSE "") \o (IF "abstract" \in DOMAIN s THEN ":also-derives-from-ABC" ELSE "") \o (IF "viamodule" \in DOMAIN s THEN ":base-named-through-module-and-subscripted" ELSE "") \o (IF "methkind" \in DOMAIN s THEN ":private-classes-define-" \o s.methkind \o "-methods" ELSE "")
Shape(h, k) == (IF Len(h[k].bases) = 2 THEN "two-bases" ELSE "one-base")
               \o (IF \E a \in PrivAnc(h, k) : Cardinality({ b \in PrivAnc(h, k) \cup {k} : a \in BasesOf(h, b) }) > 1 THEN ":shared-private-ancestor" ELSE "")
               \o (IF \E a \in PrivAnc(h, k) : PrivAnc(h, a) # {} THEN ":private-chain" ELSE "")
Judge(s, obs) ==
  IF obs.missing THEN { [property |-> "C17", clause |-> "Once", sig |-> "class-missing", expected |-> "declared", observed |-> "absent"] }
  ELSE
  LET h == [ c \in 1..Len(s.h) |-> [pub |-> s.h[c].pub, bases |-> s.h[c].bases, ms |-> ToSet(s.h[c].ms)] ]   \* sets arrive as JSON arrays
      k == obs.k
      M == obs.meths
      names == { M[j].name : j \in 1..Len(M) }
      count(m) == Cardinality({ j \in 1..Len(M) : M[j].name = m })
  IN
     { [property |-> "C17", clause |-> "Once", sig |-> "missing-method:" \o Shape(h, k) \o ShapeS(s, k), expected |-> m, observed |-> ToString(names)] : m \in Required(h, k) \ names }
  \cup { [property |-> "C17", clause |-> "Once", sig |-> "duplicated-method:" \o Shape(h, k) \o ShapeS(s, k), expected |-> "once", observed |-> ToString(count(m)) \o "x " \o m] : m \in { m \in names : count(m) > 1 } }
  \cup { [property |-> "C17", clause |-> "Once", sig |-> "foreign-method:" \o Shape(h, k) \o ShapeS(s, k), expected |-> ToString(Allowed(h, k)), observed |-> m] : m \in (names \cap Meths) \ Allowed(h, k) }
  \cup { [property |-> "C17", clause |-> "Precedence", sig |-> "wrong-definition:" \o Shape(h, k) \o ShapeS(s, k), expected |-> ToString(Winners(h, k, M[j].name)), observed |-> ToString(M[j].origin)]
         : j \in { j \in 1..Len(M) : M[j].name \in Required(h, k) /\ count(M[j].name) = 1 /\ M[j].origin \notin Winners(h, k, M[j].name) } }
  \cup { [property |-> "C17", clause |-> "SubClause", sig |-> "private-superclass-named", expected |-> "public only", observed |-> ToString(obs.supers)]
         : x \in { x \in ToSet(obs.supers) : x # 0 /\ ~h[x].pub } }
  \cup (IF IsSubseq(DirectPublicBases(h, k), obs.supers) /\ ToSet(DirectPublicBases(h, k)) \subseteq ToSet(obs.supers) THEN {}
        ELSE { [property |-> "C17", clause |-> "SubClause", sig |-> "public-bases-order:" \o Shape(h, k) \o ShapeS(s, k), expected |-> ToString(DirectPublicBases(h, k)), observed |-> ToString(obs.supers)] })
  \cup { [property |-> "C17", clause |-> "Imported", sig |-> "superclass-not-imported", expected |-> "import", observed |-> ToString(x)] : x \in ToSet(obs.unimported) }
=============================================================================
