------------------------------ MODULE C10_Trace ------------------------------
(* Trace validation for C10: the write events of real runs (path, mode, digest, announced module) judged by Layout!JudgeRun. *)
EXTENDS Naturals, Sequences, TLC, Json, IOUtils
L == INSTANCE Layout WITH Tier <- "quick", sc <- 0, fset <- {}, todoV <- {}, todoF <- {}, fs <- <<>>, created <- {}, pc <- ""
Obs == JsonDeserialize(IOEnv.OBS_FILE)
VARIABLES n, bad
TInit == n = 0 /\ bad = {}
TNext == /\ n < Len(Obs)
         /\ n' = n + 1
         /\ bad' = L!JudgeRun(Obs[n + 1].obs)
TSpec == TInit /\ [][TNext]_<<n, bad>>
Report == bad = {} \/ PrintT(ToJson([id |-> Obs[n].id, bad |-> bad]))
AllConsumed == TLCGet("stats").diameter - 1 = Len(Obs)
=============================================================================
