"""Shared plumbing of the verification harness: paths, scratch space, tiers, evidence, findings.

No oracle logic lives here (DESIGN.md section 3.2): this module only moves data between TLC and the
real tool and does the bookkeeping the interface asks for.
"""
from __future__ import annotations

import atexit
import hashlib
import json
import os
import shutil
import sys
import time
from pathlib import Path

VERIF = Path(__file__).resolve().parent.parent
REPO = Path(os.environ.get("VERIF_REPO", "/repo"))
SPEC = VERIF / "spec"
EVIDENCE = VERIF / "evidence"
REPLAYS = VERIF / "replays"
KNOWN = VERIF / "KNOWN_FINDINGS.txt"
PY = os.environ.get("VERIF_PYTHON", "/venv/bin/python")

TIER = os.environ.get("VERIF_TIER", "quick")
if TIER not in ("quick", "thorough"):
    TIER = "quick"
try:
    SEED = int(os.environ.get("VERIF_SEED", "0"))
except ValueError:
    SEED = 0

NCPU = max(2, min(16, os.cpu_count() or 4))

# Scratch root. Must not contain a path segment called test/tests/docs (the tool's filter looks at all parts
# of the absolute path) and must not contain an __init__.py above the generated packages.
_SCRATCH: Path | None = None


def scratch() -> Path:
    global _SCRATCH
    if _SCRATCH is None:
        base = Path(os.environ.get("VERIF_SCRATCH", "/tmp"))
        _SCRATCH = base / f"sdsv-{os.getpid()}"
        if _SCRATCH.exists():
            shutil.rmtree(_SCRATCH, ignore_errors=True)
        _SCRATCH.mkdir(parents=True)
        atexit.register(lambda: shutil.rmtree(_SCRATCH, ignore_errors=True))
    return _SCRATCH


_counter = [0]


def fresh_dir(prefix: str = "w") -> Path:
    _counter[0] += 1
    d = scratch() / f"{prefix}{_counter[0]:05d}"
    d.mkdir(parents=True, exist_ok=True)
    return d


def sha(text: str | bytes) -> str:
    if isinstance(text, str):
        text = text.encode("utf-8", "surrogatepass")
    return hashlib.sha256(text).hexdigest()[:16]


# ------------------------------------------------------------------------------------------------ findings

class Findings:
    """Read-only view of KNOWN_FINDINGS.txt.

    Lines:  finding: property=C11 clause=Closed sig=refkind:generic-foreign :: what fails
            fixed: property=C01 <commit> <what failed>
    A violation is suppressed only when property, clause and the complete signature string match a `finding:` line.
    `fixed:` lines suppress nothing.
    """

    def __init__(self) -> None:
        self.entries: list[dict] = []
        if KNOWN.exists():
            for line in KNOWN.read_text().splitlines():
                line = line.strip()
                if not line.startswith("finding:"):
                    continue
                head, _, what = line[len("finding:"):].partition("::")
                kv = {}
                for tok in head.split():
                    if "=" in tok:
                        k, v = tok.split("=", 1)
                        kv[k] = v
                kv["what"] = what.strip()
                self.entries.append(kv)

    def match(self, prop: str, clause: str, sig: str) -> dict | None:
        for e in self.entries:
            if e.get("property") == prop and e.get("clause") == clause and e.get("sig") == sig:
                return e
        return None


# ------------------------------------------------------------------------------------------------ verdicts

class Verdict:
    """Collects failed clauses (as judged by TLC), filters known findings, writes replay bundles and evidence."""

    def __init__(self, prop: str) -> None:
        self.prop = prop
        self.t0 = time.time()
        self.bad: list[dict] = []          # every failed clause reported by TLC for this property
        self.states = 0
        self.transitions = 0
        self.traces = 0
        self.samples: list = []
        self.extra: dict = {}
        self.assumptions: list[str] = []
        self.machinery_errors: list[str] = []
        self.tlc_runs: list[dict] = []

    def add_tlc(self, res: "dict") -> None:
        self.states += int(res.get("distinct", 0))
        self.transitions += int(res.get("generated", 0))
        self.tlc_runs.append({k: res.get(k) for k in ("spec", "cfg", "generated", "distinct", "depth", "wall_s", "mode")})

    def add_bad(self, items: list[dict]) -> None:
        for it in items:
            if it.get("property", self.prop) != self.prop:
                # A check reports only its own property (DESIGN 6.2); other clauses are informational.
                self.extra.setdefault("other_property_clauses", []).append(it)
                continue
            self.bad.append(it)

    def machinery(self, msg: str) -> None:
        self.machinery_errors.append(msg)

    def finish(self, evaluations: int | None = None, exhaustive: bool | None = None) -> int:
        findings = Findings()
        by_sig: dict[tuple, list[dict]] = {}
        for b in self.bad:
            key = (b.get("clause", "?"), b.get("sig", "?"))
            by_sig.setdefault(key, []).append(b)
        new, known = [], []
        for (clause, sig), items in sorted(by_sig.items()):
            e = findings.match(self.prop, clause, sig)
            if e is not None:
                known.append((clause, sig, items, e))
            else:
                new.append((clause, sig, items))
        for clause, sig, items, e in known:
            print(f"KNOWN-FINDING: property={self.prop} clause={clause} sig={sig} ({len(items)} cases) {e['what']}")
        rc = 0
        if (REPLAYS / self.prop).exists():
            shutil.rmtree(REPLAYS / self.prop, ignore_errors=True)      # bundles of earlier runs are stale
        for clause, sig, items in new:
            rp = self._write_replay(clause, sig, items)
            print(f"VIOLATION property={self.prop} replay={rp}")
            print(f"  clause={clause} sig={sig} cases={len(items)} first={json.dumps(items[0], sort_keys=True)[:600]}")
            rc = 1
        # scenarios the tool could not be observed on (it crashed, timed out or wrote nothing) are not decided: never a silent pass
        for key in ("unobservable", "unobservable_packs"):
            items_ = self.extra.get(key)
            if isinstance(items_, list) and items_:
                self.machinery_errors.append(f"{len(items_)} scenario(s) could not be observed, first: {json.dumps(items_[0], default=str)[:400]}")
        if self.machinery_errors:
            for m in self.machinery_errors:
                print(f"MACHINERY-ERROR property={self.prop} {m}")
            if rc == 0:
                rc = 2
        cov = {
            "states": max(self.states, 0),
            "transitions": max(self.transitions, 0),
            "traces_validated_against_impl": self.traces,
            "samples": self.samples[:6] if self.samples else ["(none)"],
            "tlc_runs": self.tlc_runs,
            "known_findings_hit": [f"{c}:{s}" for c, s, _, _ in known],
            "new_violation_signatures": [f"{c}:{s}" for c, s, _ in new],
        }
        if evaluations is not None:
            cov["evaluations"] = evaluations
        if exhaustive is not None:
            cov["exhaustive"] = exhaustive
        cov.update(self.extra)
        ev = {
            "property_id": self.prop,
            "tier": TIER,
            "seed": SEED,
            "level": "model_checking",
            "coverage": cov,
            "assumptions": self.assumptions,
            "wall_s": round(time.time() - self.t0, 2),
            "violations": len(new),
        }
        EVIDENCE.mkdir(exist_ok=True)
        (EVIDENCE / f"{self.prop}.json").write_text(json.dumps(ev, indent=1, sort_keys=True, default=str) + "\n")
        print(f"[{self.prop}] tier={TIER} states={self.states} transitions={self.transitions} traces={self.traces} "
              f"failed_clauses={len(self.bad)} new={len(new)} known={len(known)} wall={ev['wall_s']}s rc={rc}")
        return rc

    def _write_replay(self, clause: str, sig: str, items: list[dict]) -> Path:
        safe = "".join(ch if ch.isalnum() or ch in "-_." else "_" for ch in f"{clause}__{sig}")[:120]
        d = REPLAYS / self.prop / safe
        if d.exists():
            shutil.rmtree(d, ignore_errors=True)
        d.mkdir(parents=True)
        (d / "failed_clauses.json").write_text(json.dumps(items[:50], indent=1, sort_keys=True, default=str))
        for it in items[:3]:
            src = it.get("_replay_src")
            if src and Path(src).exists():
                dst = d / ("case_" + str(it.get("subject", "x")).replace("/", "_")[:60])
                try:
                    if Path(src).is_dir():
                        shutil.copytree(src, dst, dirs_exist_ok=True)
                    else:
                        dst.mkdir(exist_ok=True)
                        shutil.copy(src, dst)
                except OSError:
                    pass
        (d / "README.txt").write_text(
            f"property={self.prop} clause={clause} sig={sig}\n"
            f"Re-run: cd /verif && {PY} harness/check.py {self.prop} --tier {TIER}\n"
            "failed_clauses.json lists the clauses TLC reported (scenario, expected, observed).\n")
        return d


def log(*a: object) -> None:
    print(*a, file=sys.stderr, flush=True)
