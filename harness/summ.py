"""Developer helper: summarise the failed clauses of the last run of a check (from replays/)."""
import collections, glob, json, sys
prop = sys.argv[1]
keyf = sys.argv[2:] or []
c = collections.Counter(); ex = {}
for f in glob.glob(f"/verif/replays/{prop}/*/failed_clauses.json"):
    for b in json.load(open(f)):
        k = (b["clause"], b["sig"]) + tuple(str(b.get("options", {}).get(x, b.get(x, ""))) for x in keyf)
        c[k] += 1; ex.setdefault(k, b)
for k, n in sorted(c.items(), key=lambda x: -x[1]):
    print(n, k)
