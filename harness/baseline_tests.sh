#!/bin/sh
# Runs the repository's pinned test suite and reports how many of the 268 baseline-passing tests still pass.
cd /repo && timeout 1800 /venv/bin/python -m pytest -q -p no:cacheprovider --timeout=900 --continue-on-collection-errors -n 8 --junitxml=/tmp/sdsv-junit.xml >/dev/null 2>&1
/venv/bin/python - <<'PY'
import json, sys, xml.etree.ElementTree as ET
sp = set(json.load(open('/root/.vp/BASELINE.json'))['stable_pass'])
ok = set()
for tc in ET.parse('/tmp/sdsv-junit.xml').iter('testcase'):
    if not any(c.tag in ('failure', 'error', 'skipped') for c in tc):
        ok.add(tc.get('classname') + '::' + tc.get('name'))
print(f"baseline tests: {len(sp)} expected, {len(sp - ok)} no longer passing")
for n in sorted(sp - ok)[:20]:
    print("  ", n)
sys.exit(1 if sp - ok else 0)
PY
rc=$?; rm -f /tmp/sdsv-junit.xml; exit $rc
