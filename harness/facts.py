"""Projection of a run's output into observed facts (DESIGN 5.2). No oracle logic."""
from __future__ import annotations

import sds
from runner import Run


class Stubs:
    """All stub files of one run, parsed."""

    def __init__(self, run: Run):
        self.run = run
        self.files: dict[str, sds.SdsFile] = {}
        self.errors: dict[str, str] = {}
        for rel, text in run.stubs.items():
            ast, err = sds.try_parse(text)
            if ast is None:
                self.errors[rel] = err
            else:
                self.files[rel] = ast

    def top(self, pyname: str) -> list[tuple[str, sds.Decl]]:
        """Top-level declarations (in any file) whose Python name is `pyname`."""
        out = []
        for rel, f in self.files.items():
            for d in f.members:
                if d.pyname == pyname:
                    out.append((rel, d))
        return out

    def all_decls(self):
        for rel, f in self.files.items():
            for owners, d in f.walk():
                yield rel, owners, d


def member(d: sds.Decl, pyname: str, kind: str | None = None) -> sds.Decl | None:
    for m in d.members:
        if m.pyname == pyname and (kind is None or m.kind == kind):
            return m
    return None


def api_index(api: dict) -> dict:
    """id -> entry for every top-level list of the API JSON."""
    idx = {}
    for key in ("modules", "classes", "functions", "results", "enums", "enum_instances", "attributes", "parameters"):
        for e in api.get(key, []):
            idx.setdefault(key, {})[e["id"]] = e
    return idx


def type_term(t: dict | None) -> dict:
    """Stub type AST -> uniformly typed JSON term for TLC: {k, n, a: [terms], q: bool, l: [lits]}.

    Every term has the same fields so that TLC never compares values of different shapes.
    """
    if t is None:
        return {"k": "none", "n": "", "a": [], "q": False, "l": []}
    k = t["k"]
    q = bool(t.get("q", False))
    if k == "named":
        return {"k": "named", "n": t["n"], "a": [type_term(x) for x in t["a"]], "q": q, "l": []}
    if k == "union":
        return {"k": "union", "n": "", "a": [type_term(x) for x in t["a"]], "q": q, "l": []}
    if k == "literal":
        return {"k": "literal", "n": "", "a": [], "q": q, "l": [[x["t"], x["v"]] for x in t["a"]]}
    if k == "callable":
        ps = [type_term(p["type"]) for p in t["p"]]
        rs = [type_term(r["type"]) for r in t["r"]]
        return {"k": "callable", "n": "", "a": ps + [{"k": "arrow", "n": "", "a": rs, "q": False, "l": []}], "q": q, "l": []}
    return {"k": k, "n": "", "a": [], "q": q, "l": []}
