#!/bin/sh
# Developer helper: run every quick check sequentially and print the summary lines.
cd /verif
for p in C01 C02 C03 C04 C05 C06 C07 C08 C09 C10 C11 C12 C13 C14 C15 C16 C17 C18 C19 C20; do
  timeout 1800 /venv/bin/python harness/check.py $p --tier ${1:-quick} 2>/dev/null | grep -E "^VIOLATION|^\[C|^MACHINERY" | cut -c1-220
done
