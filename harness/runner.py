"""Fresh-process runs of the real CLI (DESIGN 5.3). One call = one `safe-ds-stubgen` invocation."""
from __future__ import annotations

import json
import os
import shutil
import subprocess
from concurrent.futures import ThreadPoolExecutor
from dataclasses import dataclass, field
from pathlib import Path

from common import NCPU, PY, REPO, fresh_dir

CHILD = str(Path(__file__).with_name("_child.py"))

DOCSTYLES = ["PLAINTEXT", "GOOGLE", "NUMPYDOC", "REST"]


@dataclass
class Opts:
    docstyle: str = "PLAINTEXT"
    nc: bool = False
    testrun: bool = False
    tsp: str = "CODE"
    tsw: str = "WARN"

    def argv(self) -> list[str]:
        a = ["--docstyle", self.docstyle, "-tsp", self.tsp, "-tsw", self.tsw]
        if self.nc:
            a.append("-nc")
        if self.testrun:
            a.append("-tr")
        return a

    def key(self) -> str:
        return f"{self.docstyle}-{'nc' if self.nc else 'py'}-{'tr' if self.testrun else 'notr'}-{self.tsp}-{self.tsw}"

    def to_json(self) -> dict:
        return {"docstyle": self.docstyle, "nc": self.nc, "testrun": self.testrun, "tsp": self.tsp, "tsw": self.tsw}


def all_opts() -> list[Opts]:
    return [Opts(d, nc, tr, tsp, tsw) for d in DOCSTYLES for nc in (False, True) for tr in (False, True)
            for tsp in ("CODE", "DOCSTRING") for tsw in ("WARN", "IGNORE")]


@dataclass
class Run:
    src: Path
    out: Path
    opts: Opts
    exit: str = "?"
    exc: str = ""
    frame: str = ""
    msg: str = ""
    tb: str = ""
    writes: list = field(default_factory=list)
    warnings: list = field(default_factory=list)
    files: dict = field(default_factory=dict)      # relpath -> text (all files under out after the run)
    wall: float = 0.0
    env: dict = field(default_factory=dict)
    walk: list = field(default_factory=list)      # [phase, kind, name] per enter/leave callback of the AST walker, when traced
    todo: list = field(default_factory=list)      # events of the TODO-marker bookkeeping (raise / flush / enter / begin / end), when traced
    cache: list = field(default_factory=list)     # [qname, owner of the returned docstring] per cache lookup, when traced

    @property
    def stubs(self) -> dict:
        return {p: t for p, t in self.files.items() if p.endswith(".sdsstub")}

    def api(self) -> dict | None:
        for p, t in self.files.items():
            if p.endswith("__api.json"):
                try:
                    return json.loads(t)
                except ValueError:
                    return None
        return None


# When set to a list, run_cli records its arguments there and returns a Run with exit "dry" instead of running
# (used by C01 to collect the packages the other checks would run, DESIGN 7 C01).
DRY_RUN: list | None = None


def run_cli(src: Path, opts: Opts | None = None, *, out: Path | None = None, hashseed: int | str = 0,
            globperm: int | None = None, cwd: Path | None = None, spelling: str = "abs",
            timeout: int = 300, keep_out: bool = True, pythonpath: str | None = None, trace_cache: bool = False, trace_walk: bool = False, trace_todo: bool = False) -> Run:
    """Run the CLI on package directory `src`. spelling in {abs, rel, abs/}: how -s/-o are written on the command line."""
    import time

    opts = opts or Opts()
    if DRY_RUN is not None:
        DRY_RUN.append({"src": Path(src), "opts": opts})
        return Run(src=Path(src), out=Path("/nonexistent"), opts=opts, exit="dry")
    work = fresh_dir("run")
    out = out or (work / "out")
    cwd = cwd or work
    src_abs = str(Path(src).resolve())
    out_abs = str(Path(out).resolve()) if Path(out).is_absolute() else str((cwd / out).resolve())
    if spelling == "rel":
        s_arg = os.path.relpath(src_abs, cwd)
        o_arg = os.path.relpath(out_abs, cwd)
    elif spelling == "abs/":
        s_arg, o_arg = src_abs + "/", out_abs + "/"
    else:
        s_arg, o_arg = src_abs, out_abs
    recp = work / "record.json"
    argsp = work / "args.json"
    argsp.write_text(json.dumps({"argv": ["-s", s_arg, "-o", o_arg, *opts.argv()], "record": str(recp),
                                 "globperm": globperm, "src_abs": src_abs, "out_abs": out_abs, "trace_cache": trace_cache, "trace_walk": trace_walk, "trace_todo": trace_todo}))
    env = {k: v for k, v in os.environ.items() if k not in ("PYTHONHASHSEED", "PYTHONPATH")}
    env["PYTHONHASHSEED"] = str(hashseed)
    env["PYTHONDONTWRITEBYTECODE"] = "1"
    if pythonpath or os.environ.get("VERIF_SRC"):
        env["PYTHONPATH"] = pythonpath or os.environ["VERIF_SRC"]
    r = Run(src=Path(src), out=Path(out_abs), opts=opts,
            env={"hashseed": hashseed, "globperm": globperm, "cwd": str(cwd), "spelling": spelling})
    t0 = time.time()
    try:
        p = subprocess.run([PY, CHILD, str(argsp)], cwd=str(cwd), env=env, capture_output=True, text=True, timeout=timeout)
        if recp.exists():
            rec = json.loads(recp.read_text())
            r.exit, r.exc, r.frame, r.msg = rec["exit"], rec["exc"], rec["frame"], rec["msg"]
            r.tb = rec.get("tb", "")
            r.writes, r.warnings = rec["writes"], rec["warnings"]
            r.cache = rec.get("cache", [])
            r.walk = rec.get("walk", [])
            r.todo = rec.get("todo", [])
            for k in ("cache_error", "walk_error", "todo_error"):
                if rec.get(k):
                    r.msg += f" [{k}: {rec[k]}]"
        else:
            r.exit = "crash"
            r.exc = "NoRecord"
            r.msg = (p.stderr or "")[-500:]
    except subprocess.TimeoutExpired:
        r.exit = "timeout"
    r.wall = time.time() - t0
    outp = Path(out_abs)
    if outp.exists():
        for f in sorted(outp.rglob("*")):
            if f.is_file():
                try:
                    r.files[str(f.relative_to(outp))] = f.read_text(encoding="utf-8", errors="surrogateescape")
                except OSError:
                    pass
    mc = cwd / ".mypy_cache"
    if mc.exists():
        shutil.rmtree(mc, ignore_errors=True)
    if not keep_out:
        shutil.rmtree(work, ignore_errors=True)
    return r


def run_many(jobs: list[dict], workers: int = NCPU) -> list[Run]:
    """jobs: list of kwargs for run_cli. Runs them on a thread pool (each is a subprocess)."""
    with ThreadPoolExecutor(max_workers=workers) as ex:
        return list(ex.map(lambda kw: run_cli(**kw), jobs))
