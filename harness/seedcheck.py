"""Runs registered checks against the seeded changes under /verif/seeded/<id>/ (applies patch.diff to /repo, runs, reverts).

usage: seedcheck.py [seed ids ...] [--checks C03,C04 | --all-checks]
Writes seeded/<id>/result.json and seeded/README.md.  /repo is always restored (git checkout -- .).
"""
from __future__ import annotations

import json
import os
import subprocess
import sys
from pathlib import Path

V = Path(__file__).resolve().parent.parent
SEEDED = V / "seeded"
REPO = "/repo"
PY = "/venv/bin/python"


def sh(cmd, **kw):
    return subprocess.run(cmd, capture_output=True, text=True, **kw)


def run_check(prop: str) -> dict:
    p = sh([PY, str(V / "harness" / "check.py"), prop, "--tier", "quick"], cwd=str(V), env=dict(os.environ, VERIF_TIER="quick"))
    sigs = []
    lines = p.stdout.splitlines()
    for i, ln in enumerate(lines):
        if ln.startswith("VIOLATION"):
            nxt = lines[i + 1] if i + 1 < len(lines) else ""
            sigs.append(nxt.strip().split(" cases=")[0])
    mach = [ln for ln in lines if ln.startswith("MACHINERY")]
    return {"rc": p.returncode, "violations": sigs[:12], "machinery": mach[:2]}


def main():
    args = [a for a in sys.argv[1:] if not a.startswith("--")]
    checks_opt = next((a.split("=", 1)[1] for a in sys.argv[1:] if a.startswith("--checks=")), None)
    all_checks = "--all-checks" in sys.argv
    props = [json.loads(l)["id"] for l in open(V / "properties.jsonl")]
    seeds = args or sorted(d.name for d in SEEDED.iterdir() if (d / "patch.diff").exists())
    assert sh(["git", "-C", REPO, "status", "--porcelain", "--untracked-files=no"]).stdout.strip() == "", "/repo has uncommitted changes"
    for sid in seeds:
        d = SEEDED / sid
        meta = json.loads((d / "meta.json").read_text())
        target = meta["property"]
        checks = props if all_checks else (checks_opt.split(",") if checks_opt else [target])
        ap = sh(["git", "-C", REPO, "apply", str(d / "patch.diff")])
        if ap.returncode != 0:
            print(sid, "patch does not apply:", ap.stderr[:300])
            continue
        try:
            res = {c: run_check(c) for c in checks}
        finally:
            sh(["git", "-C", REPO, "checkout", "--", "."])
        old = json.loads((d / "result.json").read_text()) if (d / "result.json").exists() else {}
        old.update(res)
        (d / "result.json").write_text(json.dumps(old, indent=1, sort_keys=True))
        print(sid, {c: r["rc"] for c, r in res.items()})
    # README
    rows = ["# Seeded changes and the checks that catch them", "",
            "Each directory holds patch.diff (never committed to /repo), the sub-agent's demonstration, meta.json and result.json",
            "(exit code and reported signatures of the checks run against the patched tree with `harness/seedcheck.py`).", "",
            "| seed | property | needs to manifest | caught by (rc=1) | not caught by (rc=0) |", "|---|---|---|---|---|"]
    for d in sorted(SEEDED.iterdir()):
        if not (d / "meta.json").exists():
            continue
        meta = json.loads((d / "meta.json").read_text())
        res = json.loads((d / "result.json").read_text()) if (d / "result.json").exists() else {}
        caught = [c for c, r in sorted(res.items()) if r["rc"] == 1]
        missed = [c for c, r in sorted(res.items()) if r["rc"] == 0]
        other = [f"{c}(rc={r['rc']})" for c, r in sorted(res.items()) if r["rc"] not in (0, 1)]
        rows.append(f"| {d.name} | {meta['property']} | {str(meta.get('needs_to_manifest', ''))[:160].replace('|', '/')} | {', '.join(caught)} | {', '.join(missed + other)} |")
    (SEEDED / "README.md").write_text("\n".join(rows) + "\n")


if __name__ == "__main__":
    main()
