"""Runs registered checks against the seeded changes under /verif/seeded/<id>/: applies patch.diff to a scratch worktree of /repo
(/tmp/sdsv-wt/VERIFY, at /repo's HEAD), runs the checks with VERIF_SRC pointing there, and reverts.  --benign does the same for
/verif/benign/*.patch (expected: every check exits 0).

usage: seedcheck.py [seed ids ...] [--checks C03,C04 | --all-checks]
Writes seeded/<id>/result.json and seeded/README.md.  /repo is always restored (git checkout -- .).
"""
from __future__ import annotations

import json
import os
import subprocess
import sys
from pathlib import Path

V = Path(__file__).resolve().parent.parent
SEEDED = V / "seeded"
REPO = "/repo"
# scratch worktree the patches are applied to (never /repo); --wt=<path> lets several instances run side by side
WT = next((a.split("=", 1)[1] for a in sys.argv[1:] if a.startswith("--wt=")), "/tmp/sdsv-wt/VERIFY")
PY = "/venv/bin/python"


def sh(cmd, **kw):
    return subprocess.run(cmd, capture_output=True, text=True, **kw)


def run_check(prop: str) -> dict:
    p = sh([PY, str(V / "harness" / "check.py"), prop, "--tier", "quick"], cwd=str(V), env=dict(os.environ, VERIF_TIER="quick", VERIF_SRC=WT + "/src"))
    sigs = []
    lines = p.stdout.splitlines()
    for i, ln in enumerate(lines):
        if ln.startswith("VIOLATION"):
            nxt = lines[i + 1] if i + 1 < len(lines) else ""
            sigs.append(nxt.strip().split(" cases=")[0])
    mach = [ln for ln in lines if ln.startswith("MACHINERY")]
    return {"rc": p.returncode, "violations": sigs[:12], "machinery": mach[:2]}


def benign():
    props = [json.loads(l)["id"] for l in open(V / "properties.jsonl")]
    only = next((a.split("=", 1)[1].split(",") for a in sys.argv[1:] if a.startswith("--checks=")), props)
    if not os.path.isdir(WT):
        sh(["git", "-C", REPO, "worktree", "add", "-q", WT, "HEAD"])
    sh(["git", "-C", WT, "checkout", "-q", "--", "."])
    sh(["git", "-C", WT, "checkout", "-q", "--detach", sh(["git", "-C", REPO, "rev-parse", "HEAD"]).stdout.strip()])
    out = {}
    names = [a for a in sys.argv[1:] if not a.startswith("--")]
    for pf in sorted((V / "benign").glob("*.patch")):
        if names and pf.stem not in names:
            continue
        if sh(["git", "-C", WT, "apply", str(pf)]).returncode != 0:
            print(pf.name, "does not apply")
            continue
        try:
            res = {c: run_check(c) for c in only}
        finally:
            sh(["git", "-C", WT, "checkout", "--", "."])
        out[pf.stem] = {c: r for c, r in res.items() if r["rc"] != 0}
        print(pf.stem, "alarms:", {c: (r["rc"], r["violations"][:2], r["machinery"][:1]) for c, r in out[pf.stem].items()})
    for name, res in out.items():
        (V / "benign" / f"{name}.result.json").write_text(json.dumps({"checks_run": only, "alarms": res}, indent=1, sort_keys=True))


def main():
    if "--benign" in sys.argv:
        return benign()
    args = [a for a in sys.argv[1:] if not a.startswith("--")]
    checks_opt = next((a.split("=", 1)[1] for a in sys.argv[1:] if a.startswith("--checks=")), None)
    all_checks = "--all-checks" in sys.argv
    props = [json.loads(l)["id"] for l in open(V / "properties.jsonl")]
    seeds = args or sorted(d.name for d in SEEDED.iterdir() if (d / "patch.diff").exists())
    if not os.path.isdir(WT):
        sh(["git", "-C", REPO, "worktree", "add", "-q", WT, "HEAD"])
    sh(["git", "-C", WT, "checkout", "-q", "--", "."])
    sh(["git", "-C", WT, "checkout", "-q", "--detach", sh(["git", "-C", REPO, "rev-parse", "HEAD"]).stdout.strip()])
    for sid in seeds:
        d = SEEDED / sid
        meta = json.loads((d / "meta.json").read_text())
        target = meta["property"]
        checks = props if all_checks else (checks_opt.split(",") if checks_opt else [target])
        ap = sh(["git", "-C", WT, "apply", str(d / "patch.diff")])
        if ap.returncode != 0:
            print(sid, "patch does not apply:", ap.stderr[:300])
            continue
        try:
            res = {c: run_check(c) for c in checks}
        finally:
            sh(["git", "-C", WT, "checkout", "--", "."])
        old = json.loads((d / "result.json").read_text()) if (d / "result.json").exists() else {}
        old.update(res)
        (d / "result.json").write_text(json.dumps(old, indent=1, sort_keys=True))
        print(sid, {c: r["rc"] for c, r in res.items()})
    # README
    rows = ["# Seeded changes and the checks that catch them", "",
            "Each directory holds patch.diff (never committed to /repo), the sub-agent's demonstration, meta.json and result.json",
            "(exit code and reported signatures of the checks run against the patched tree with `harness/seedcheck.py`).", "",
            "| seed | property | needs to manifest | caught by (rc=1) | not caught by (rc=0) |", "|---|---|---|---|---|"]
    for d in sorted(SEEDED.iterdir()):
        if not (d / "meta.json").exists():
            continue
        meta = json.loads((d / "meta.json").read_text())
        res = json.loads((d / "result.json").read_text()) if (d / "result.json").exists() else {}
        caught = [c for c, r in sorted(res.items()) if r["rc"] == 1]
        missed = [c for c, r in sorted(res.items()) if r["rc"] == 0]
        other = [f"{c}(rc={r['rc']})" for c, r in sorted(res.items()) if r["rc"] not in (0, 1)]
        rows.append(f"| {d.name} | {meta['property']} | {str(meta.get('needs_to_manifest', ''))[:160].replace('|', '/')} | {', '.join(caught)} | {', '.join(missed + other)} |")
    (SEEDED / "README.md").write_text("\n".join(rows) + "\n")


if __name__ == "__main__":
    main()
