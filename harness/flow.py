"""The three uses of TLC (DESIGN 3.2) as reusable steps: design model checking + scenario generation, trace judging."""
from __future__ import annotations

import json
from pathlib import Path

from common import NCPU, TIER, Verdict, fresh_dir, log
from tlc import run_tlc, write_json


def generate(v: Verdict, module: str, cfg: str, *, workers: int = NCPU, simulate: str | None = None, depth=None,
             seed=None, env=None, timeout=1200, min_records: int = 1) -> list:
    """Design model checking of `module` under `cfg`; the scenarios it prints are returned in a canonical order."""
    r = run_tlc(module, cfg, workers=workers, simulate=simulate, depth=depth, seed=seed, env=env, timeout=timeout)
    v.add_tlc(r)
    if not r["ok"]:
        v.machinery(f"design model checking of {module}/{cfg} failed: {r['errors'][:3]}")
        return []
    recs = r["records"]
    seen = {}
    for rec in recs:
        seen[json.dumps(rec, sort_keys=True)] = rec
    out = [seen[k] for k in sorted(seen)]
    if len(out) < min_records:
        v.machinery(f"{module}/{cfg} generated only {len(out)} scenarios (vacuous)")
    return out


def judge(v: Verdict, module: str, obs: list, *, cfg: str | None = None, env: dict | None = None,
          timeout: int = 1800, chunk: int = 0) -> list[dict]:
    """Trace validation: write observations, let the TLA+ trace spec judge them, return the failed clauses.

    Each failed clause gets the id of its observation; `v.traces` counts validated observations.
    """
    if not obs:
        v.machinery(f"nothing observable for {module}")
        return []
    chunks = [obs] if not chunk else [obs[i:i + chunk] for i in range(0, len(obs), chunk)]
    bad_all: list[dict] = []
    for ch in chunks:
        d = fresh_dir("obs")
        f = write_json(d / "obs.json", ch)
        e = {"OBS_FILE": str(f)}
        if env:
            e.update(env)
        r = run_tlc(module, cfg or f"{module}.cfg", workers=1, env=e, timeout=timeout)
        v.add_tlc(r)
        if not r["ok"]:
            v.machinery(f"trace validation {module} failed: {r['errors'][:3]}")
            continue
        if r["distinct"] != len(ch) + 1:
            v.machinery(f"trace validation {module}: consumed {r['distinct'] - 1} of {len(ch)} observations")
        v.traces += len(ch)
        for rec in r["records"]:
            if not isinstance(rec, dict):      # constant-level PrintT of an instantiated module (evaluated once at start-up)
                continue
            for b in rec.get("bad", []):
                b = dict(b)
                b["subject"] = rec.get("id")
                bad_all.append(b)
    return bad_all
