"""Regenerates MANIFEST.json from the registry of checks that exist (harness/checks/cXX.py)."""
import json, os, sys
sys.path.insert(0, os.path.dirname(os.path.abspath(__file__)))
from registry import REGISTRY, NOT_APPLICABLE  # noqa: E402
V = os.path.dirname(os.path.dirname(os.path.abspath(__file__)))
props = [json.loads(l)["id"] for l in open(os.path.join(V, "properties.jsonl"))]
checks = []
for p in props:
    if p in REGISTRY and os.path.exists(os.path.join(V, "harness", "checks", p.lower() + ".py")):
        r = REGISTRY[p]
        checks.append({
            "property_id": p,
            "quick_cmd": f"/venv/bin/python harness/check.py {p} --tier quick",
            "thorough_cmd": f"/venv/bin/python harness/check.py {p} --tier thorough",
            "evidence_file": f"/verif/evidence/{p}.json",
            "replay_cmd_template": f"/venv/bin/python harness/check.py {p} --tier quick  # bundle: {{path}}",
            "engine": "tlc+conformance",
            "level_claimed": {"category": "model_checking", "text": r["text"], "design_ref": r["ref"]},
            "level_note": r["note"],
            "technique": r["technique"],
        })
na = [{"property_id": p, "reason": NOT_APPLICABLE.get(p, "check under construction in this round (DESIGN.md section 12); not yet claimed")}
      for p in props if p not in {c["property_id"] for c in checks}]
m = {
    "version": 1,
    "setup_cmd": "cd /verif && /venv/bin/python harness/setup_check.py",
    "hooks": {"guard": "SAFEDS_STUBGEN_VERIF (reserved; no source hooks are installed)",
              "enable": "n/a - observation is done by /verif/harness/_child.py in its own process (wraps pathlib.Path.open/glob, installs a logging handler)",
              "baseline_off_cmd": "cd /repo && /venv/bin/python -m pytest -ra -q -p no:cacheprovider --timeout=900 --continue-on-collection-errors",
              "source_commits": [], "add_only": True},
    "engines": [{"name": "tlc+conformance", "path": "/verif/harness/check.py", "serves_properties": [c["property_id"] for c in checks],
                 "kind_free_text": "explicit TLA+ specification (spec/*.tla) model-checked by TLC; TLC-generated scenarios replayed through the real CLI/library; observed facts judged by TLA+ trace specs"}],
    "checks": checks,
    "not_applicable": na,
    "notes": "See DESIGN.md. Oracle logic lives in TLA+ only; Python concretises scenarios, runs the tool in fresh processes and projects outputs into facts.",
}
json.dump(m, open(os.path.join(V, "MANIFEST.json"), "w"), indent=1)
print("checks:", [c["property_id"] for c in checks], "not claimed:", [x["property_id"] for x in na])
