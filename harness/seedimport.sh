#!/bin/sh
# Developer helper: import a sub-agent's seeded change (its own _seed/patch.diff), confirming the demonstration on a clean
# worktree with and without the patch.   usage: seedimport.sh <ID> [seed-name]
ID=$1; NAME=${2:-$1}
WT=/tmp/sdsv-wt/$ID; VT=${VT:-/tmp/sdsv-wt/VERIFY}
mkdir -p /verif/seeded/$NAME
cp $WT/_seed/patch.diff /verif/seeded/$NAME/patch.diff
cp $WT/_seed/demo.* /verif/seeded/$NAME/ 2>/dev/null
cp $WT/_seed/meta.json /verif/seeded/$NAME/meta.json
DEMO=$(ls /verif/seeded/$NAME/demo.* | head -1)
case $DEMO in *.py) RUN="/venv/bin/python $DEMO";; *) RUN="sh $DEMO";; esac
git -C $VT checkout -q -- . ; git -C $VT apply /verif/seeded/$NAME/patch.diff; C=$?
mkdir -p /tmp/sdsv-demo && cd /tmp/sdsv-demo
$RUN $VT/src > /tmp/sdsv-demo/$NAME.changed.log 2>&1; A=$?
git -C $VT checkout -q -- .
$RUN $VT/src > /tmp/sdsv-demo/$NAME.orig.log 2>&1; B=$?
FILES=$(grep -c '^diff --git' /verif/seeded/$NAME/patch.diff)
echo "$NAME demo changed=$A (want 1) original=$B (want 0) applies=$C (want 0) files=$FILES lines=$(wc -l < /verif/seeded/$NAME/patch.diff)"
