"""Entry point of every registered check:  check.py Cxx [--tier quick|thorough]"""
from __future__ import annotations

import importlib
import os
import sys
import traceback

sys.path.insert(0, os.path.dirname(os.path.abspath(__file__)))
# Developer option (seeded / benign changes in a scratch worktree): VERIF_SRC=<dir>/src makes the checks import and run that tree.
# Unset (the registered commands), the checks use /repo's working tree through the editable install.
if os.environ.get("VERIF_SRC"):
    sys.path.insert(0, os.environ["VERIF_SRC"])
    os.environ["PYTHONPATH"] = os.environ["VERIF_SRC"]


def main() -> int:
    args = sys.argv[1:]
    if not args:
        print("usage: check.py Cxx [--tier quick|thorough]")
        return 2
    prop = args[0].upper()
    if "--tier" in args:
        os.environ["VERIF_TIER"] = args[args.index("--tier") + 1]
    import common
    v = common.Verdict(prop)
    try:
        mod = importlib.import_module(f"checks.{prop.lower()}")
        mod.main(v)
    except Exception:  # noqa: BLE001  machinery failure, never a verdict
        v.machinery("exception in harness: " + traceback.format_exc()[-1500:])
    return v.finish()


if __name__ == "__main__":
    sys.exit(main())
