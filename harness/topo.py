"""Concretiser and observer for the package-topology universe U1 (spec/Package.tla). Shared by C03, C04, C10, C11, C12.

Scenarios are packed as sibling sub-packages root/sNNNN/... ; every name of scenario NNNN carries the suffix xNNNNx so that
scenarios cannot collide in the tool's package-wide, name-keyed tables (DESIGN 6.4).
"""
from __future__ import annotations

from pathlib import Path

from common import NCPU
from facts import Stubs, api_index
from pygen import write_pkg
from runner import Opts, run_many

PLACE = {"root": [], "pubsub": ["subp"], "privsub": ["_hid"], "nested": ["subp", "deep"]}
PACK = 40


def sfx(i: int) -> str:
    return f"x{i:04d}x"


def names(sc) -> dict:
    s = sfx(sc["id"])
    d = sc["dname"]
    dn = {"pubdecl": "pubdecl" + s, "_privdecl": "_privdecl" + s, "__dunder__": "__dunder" + s + "__", "__mangled": "__mangled" + s, "_trail__": "_trail" + s + "__"}[d]
    return {"decl": dn, "stem": sc["stem"] + s, "alias": (sc["reexp"]["alias"] + s) if sc["reexp"]["alias"] else "",
            "meth": "meth" + s, "attr": "attr" + s, "pmeth": "_pmeth" + s, "iattr": "iattr" + s, "attr2": "attrb" + s, "iattr2": "iattrb" + s, "ometh": "ometh" + s, "prop": "prop" + s, "inner": "Inner" + s,
            "imeth": "imeth" + s, "pinner": "_PInner" + s, "AA": "AA" + s, "BB": "BB" + s, "PM": "_pm" + s}


def decl_src(sc, n) -> str:
    k, d = sc["kind"], n["decl"]
    if k == "function":
        return f"def {d}(a: int) -> int:\n    ...\n"
    if k == "class":
        return ("from typing import overload\n\n\n" + f"class {d}:\n    {n['attr']}: int = 1\n    {n['attr']}, {n['attr2']} = 2, 3\n\n    def __init__(self, a: int):\n        self.{n['iattr']}: int = a\n"
                f"        self.{n['iattr']}, self.{n['iattr2']} = a, a\n\n"
                f"    def {n['meth']}(self, a: int) -> int:\n        ...\n\n    def {n['pmeth']}(self) -> int:\n        ...\n\n"
                f"    @overload\n    @staticmethod\n    def {n['ometh']}(a: int) -> int: ...\n\n    @overload\n    @staticmethod\n    def {n['ometh']}(a: str) -> int: ...\n\n"
                f"    @staticmethod\n    def {n['ometh']}(a) -> int:\n        ...\n\n"
                f"    @property\n    def {n['prop']}(self) -> int:\n        ...\n\n    @{n['prop']}.setter\n    def {n['prop']}(self, v: int) -> None:\n        ...\n")
    if k == "classinner":
        return (f"class {d}:\n    def {n['meth']}(self) -> int:\n        ...\n\n    class {n['inner']}:\n        def {n['imeth']}(self) -> int:\n            ...\n\n"
                f"    class {n['pinner']}:\n        pass\n")
    if k == "enum":
        return f"from enum import Enum\n\n\nclass {d}(Enum):\n    {n['AA']} = 1\n    {n['BB']} = 2\n    {n['PM']} = 3\n"
    raise ValueError(k)


def scenario_files(sc, base: str) -> dict:
    """Files of one scenario below the directory `base` (the scenario package)."""
    n = names(sc)
    path = PLACE[sc["place"]]
    files = {}
    inits: dict[tuple, list[str]] = {}
    for j in range(len(path) + 1):
        inits[tuple(path[:j])] = []
    moddir = "/".join([base, *path])
    files[f"{moddir}/{n['stem']}.py"] = decl_src(sc, n)
    r = sc["reexp"]
    if r["form"] != "none":
        at = r["at"]
        rel = path[at:]
        relmod = "." + ".".join([*rel, n["stem"]])
        relpkg = "." + ".".join(rel) if rel else "."
        line = {"name": f"from {relmod} import {n['decl']}",
                "alias": f"from {relmod} import {n['decl']} as {n['alias']}",
                "star": f"from {relmod} import *",
                "module": f"from {relpkg} import {n['stem']}",
                "modalias": f"from {relpkg} import {n['stem']} as {n['alias']}"}[r["form"]]
        inits[tuple(path[:at])].append(line)
    for p, lines in inits.items():
        files["/".join([base, *p, "__init__.py"])] = "\n".join(lines) + ("\n" if lines else "")
    if sc["kind"] != "function":
        # another module of the scenario package uses the class / enum as a type, whatever its publicity
        s = sfx(sc["id"])
        files[f"{base}/usermod{s}.py"] = (f"from .{'.'.join([*path, n['stem']])} import {n['decl']}\n\n\n"
                                          f"def holds{s}(x: {n['decl']}) -> int:\n    ...\n")
    return files


def _add_importer(files: dict, chunk, rootname: str) -> None:
    """A plain module that sorts before every other one imports the private declarations (private by name or by path) that nothing
    re-exports (an import in a module is no re-export), and a sub-package that consists of its package file only (the type checker
    never loads it)."""
    lines = []
    for sc in chunk:
        private_name = sc["dname"] in ("_privdecl", "__mangled", "_trail__") and sc["stem"] == "pubmod" and sc["place"] != "privsub"
        private_path = sc["dname"] == "pubdecl" and (sc["stem"] == "_privmod" or sc["place"] == "privsub")
        if sc["reexp"]["form"] == "none" and (private_name or private_path):
            n = names(sc)
            lines.append(f"from {rootname}.s{sc['id']:04d}.{'.'.join([*PLACE[sc['place']], n['stem']])} import {n['decl']}")
    files["aaa_first.py"] = "\n".join(lines) + "\n\n\ndef first_fn() -> int:\n    ...\n"
    files["zdata/__init__.py"] = ""


def build_packs(scs, root="topork", pack=PACK) -> list[tuple[Path, list]]:
    """-> [(package dir, scenarios in it)]"""
    out = []
    for c in range(0, len(scs), pack):
        chunk = scs[c:c + pack]
        files = {"__init__.py": ""}
        for sc in chunk:
            files.update(scenario_files(sc, f"s{sc['id']:04d}"))
        rootname = f"{root}{c // pack:03d}"
        _add_importer(files, chunk, rootname)
        out.append((write_pkg(files, rootname), chunk))
    return out


def build_single(sc, root="topoiso") -> Path:
    files = {"__init__.py": ""}
    files.update(scenario_files(sc, f"s{sc['id']:04d}"))
    _add_importer(files, [sc], f"{root}{sc['id']:04d}")
    return write_pkg(files, f"{root}{sc['id']:04d}")


def file_home(f, rootname: str, sid: str) -> list[str]:
    """The Python module a stub file announces, as segments relative to the scenario package."""
    mod = (f.pymodule or f.package).split(".")
    if len(mod) >= 2 and mod[0] == rootname and mod[1] == sid:
        return mod[2:]
    return ["@outside"] + mod


def observe(sc, stubs: Stubs, idx: dict, rootname: str) -> dict:
    n = names(sc)
    sid = f"s{sc['id']:04d}"
    mark = sfx(sc["id"])
    roles = {"function": ["decl"], "class": ["decl", "meth", "attr", "pmeth", "iattr", "attr2", "iattr2", "ometh", "prop"],
             "classinner": ["decl", "meth", "inner", "imeth", "pinner"], "enum": ["decl", "AA", "BB", "PM"]}[sc["kind"]]
    top_names = {n["decl"]} | ({n["alias"]} if n["alias"] else set())
    owner = {"meth": "decl", "attr": "decl", "pmeth": "decl", "iattr": "decl", "attr2": "decl", "iattr2": "decl", "ometh": "decl", "prop": "decl", "inner": "decl", "pinner": "decl", "PM": "decl", "imeth": "inner", "AA": "decl", "BB": "decl"}
    occs = {r: [] for r in roles}
    for rel, f in stubs.files.items():
        home = None
        for owners, d in f.walk():
            if mark not in d.pyname and mark not in d.name:
                continue
            if home is None:
                home = [seg.replace(mark, "") for seg in file_home(f, rootname, sid)]
            for r in roles:
                target = top_names if r == "decl" else {n[r]}
                if d.pyname in target or d.name in target:
                    if r == "decl":
                        inowner = len(owners) == 0
                    else:
                        want = top_names if owner[r] == "decl" else {n[owner[r]]}
                        inowner = len(owners) >= 1 and (owners[-1].pyname in want or owners[-1].name in want)
                    occs[r].append({"home": home, "name": d.pyname.replace(mark, "") if r == "decl" else d.pyname, "inowner": inowner})
    # publicity flags of the API inventory
    py_mod_id = "/".join([rootname, sid, *PLACE[sc["place"]], n["stem"]])

    def flag(kind, jid):
        e = idx.get(kind, {}).get(jid)
        if e is None or "is_public" not in e:
            return "absent"
        return "true" if e["is_public"] else "false"
    did = f"{py_mod_id}/{n['decl']}"
    jp = {"decl": flag({"function": "functions", "enum": "enums"}.get(sc["kind"], "classes"), did),
          "meth": flag("functions", f"{did}/{n['meth']}"), "pmeth": flag("functions", f"{did}/{n['pmeth']}"),
          "attr": flag("attributes", f"{did}/{n['attr']}"), "iattr": flag("attributes", f"{did}/{n['iattr']}"),
          "attr2": flag("attributes", f"{did}/{n['attr2']}"), "iattr2": flag("attributes", f"{did}/{n['iattr2']}"),
          "ometh": flag("functions", f"{did}/{n['ometh']}"), "prop": flag("functions", f"{did}/{n['prop']}"),
          "inner": flag("classes", f"{did}/{n['inner']}"), "pinner": flag("classes", f"{did}/{n['pinner']}"),
          "imeth": flag("functions", f"{did}/{n['inner']}/{n['imeth']}"), "AA": "absent", "BB": "absent", "PM": "absent"}
    # decl names are reported without the scenario suffix so that the spec can compare them with dname / alias
    ents = []
    for r in roles:
        ents.append({"role": r, "occs": occs[r], "jsonpublic": jp[r]})
    return {"ents": ents}


def run_packs(packs, opts: Opts | None = None, **kw):
    jobs = [{"src": d, "opts": opts or Opts(), "timeout": 600, **kw} for d, _ in packs]
    return run_many(jobs, workers=NCPU)


# ------------------------------------------------------------------------------------------------ universe U2 (spec/Package2.tla)
AT_PATH = {0: [], 1: ["sub"], 2: ["sub", "deep"], 3: ["other"]}


def u2_names(sc):
    s = sfx(sc["id"])
    v = sc.get("variant", "distinct")
    if v == "pkgnamed":
        return {1: "declone" + s, 2: "decltwo" + s, "m1": "_moda", "m2": "modb"}
    if v in ("bareimport", "privalias"):
        return {1: "declone" + s, 2: "decltwo" + s, "m1": "_moda", "m2": "_modb"}
    if v in ("samename", "samenameboth"):
        return {1: "samedecl" + s, 2: "samedecl" + s, "m1": "_moda", "m2": "_modb"}
    if v == "suffix":
        return {1: "public_tail" + s, 2: "_tail" + s, "m1": "_moda", "m2": "_modb"}
    if v in ("privtwin", "privtwindeep", "privtwinlate"):
        return {1: "declone" + s, 2: "decltwo" + s, "m1": "modsame" + s, "m2": "modsame" + s}
    if v == "stdlibname":
        return {1: "declone" + s, 2: "decltwo" + s, "m1": "moda", "m2": "logging"}
    if v == "suffixalias":
        return {1: "tail" + s, 2: "big_tail" + s, "m1": "moda", "m2": "modb"}
    if v in ("samemodule", "samemoduleboth"):
        return {1: "declone" + s, 2: "decltwo" + s, "m1": "modsame" + s, "m2": "modsame" + s}
    return {1: "declone" + s, 2: "decltwo" + s, "m1": "moda", "m2": "modb"}


def u2_files(sc, root: str) -> dict:
    s = sfx(sc["id"])
    sid = f"s{sc['id']:04d}"
    nm = u2_names(sc)

    def decl(t):
        n = nm[t]
        if sc["kind"] == "function":
            return f"def {n}(from_d{t}: int) -> int:\n    ...\n"
        base = "(Exception)" if sc.get("variant") == "exccls" and t == 1 else ""
        return f"class {n}{base}:\n    def m_d{t}(self) -> int:\n        ...\n\n    def _helper{s}(self) -> int:\n        ...\n\n    @property\n    def _pprop{s}(self) -> int:\n        ...\n"
    other = "_other" if sc.get("variant") == "privreexp" else "other"      # the sibling package is a private one
    files = {f"{sid}/__init__.py": "", f"{sid}/sub/__init__.py": "", f"{sid}/sub/deep/__init__.py": "", f"{sid}/{other}/__init__.py": "",
             f"{sid}/{other}/fill.py": "def fill" + s + "() -> int:\n    ...\n",
             f"{sid}/sub/deep/{nm['m1']}.py": decl(1), f"{sid}/sub/{nm['m2']}.py": decl(2)}
    if sc.get("variant") == "sharedbase":    # both classes in one module, derived from one private class with a public method
        files[f"{sid}/sub/deep/{nm['m1']}.py"] = (f"class _Base{s}:\n    def m_shared(self, from_base: int) -> int:\n        ...\n\n"
                                                  f"    class Options:\n        def __init__(self, n: int):\n            ...\n\n        def opt_m(self) -> int:\n            ...\n\n"
                                                  f"    class _Registry:\n        def __init__(self, size: int):\n            ...\n\n\n"
                                                  f"class {nm[1]}(_Base{s}):\n    def m_d1(self) -> int:\n        ...\n\n\n"
                                                  f"class {nm[2]}(_Base{s}):\n    def m_shared(self, from_own: int) -> int:\n        ...\n\n    def m_d2(self) -> int:\n        ...\n\n"
                                                  f"    class Options:\n        def own_opt(self) -> int:\n            ...\n")
        files[f"{sid}/sub/{nm['m2']}.py"] = "def fillb" + s + "() -> int:\n    ...\n"
    if sc.get("variant") == "genericattr":   # class 1 is generic; a class attribute and a constructor-assigned attribute are typed by its type variable
        files[f"{sid}/sub/deep/{nm['m1']}.py"] = (f"from typing import Generic, TypeVar\n\nT{s} = TypeVar(\"T{s}\")\n\n\n"
                                                  f"class {nm[1]}(Generic[T{s}]):\n    content: T{s}\n    plain: int = 1\n\n    def __init__(self, item: T{s}):\n        self.item: T{s} = item\n\n"
                                                  f"    def m_d1(self) -> int:\n        ...\n\n    def _helper{s}(self) -> int:\n        ...\n")
    if sc.get("variant") == "conddecl":      # the declarations stand under a module-level if / in a module-level try
        ind = lambda t: "".join("    " + ln + "\n" if ln.strip() else "\n" for ln in t.splitlines())  # noqa: E731
        files[f"{sid}/sub/deep/{nm['m1']}.py"] = "import sys\n\nif sys.version_info >= (3, 8):\n" + ind(decl(1)) + "else:\n    pass\n"
        files[f"{sid}/sub/{nm['m2']}.py"] = "try:\n" + ind(decl(2)) + "except ImportError:\n    pass\n"
    if sc.get("variant") == "redefclass":    # class 1 is defined twice; the definitions share attribute names
        files[f"{sid}/sub/deep/{nm['m1']}.py"] = (f"class {nm[1]}:\n    retries: int = 1\n\n    def __init__(self):\n        self.verbose: bool = False\n\n"
                                                  f"    def m_old{s}(self) -> int:\n        ...\n\n\n"
                                                  f"class {nm[1]}:  # noqa: F811\n    retries: int = 3\n    level: int = 0\n\n    def __init__(self):\n        self.verbose: bool = True\n\n"
                                                  f"    def m_d1(self) -> int:\n        ...\n\n    def _helper{s}(self) -> int:\n        ...\n")
    if sc.get("variant") == "newtype":       # module 1 also defines a NewType, module 2 uses it
        m1, m2 = f"{sid}/sub/deep/{nm['m1']}.py", f"{sid}/sub/{nm['m2']}.py"
        files[m1] = f"from typing import NewType\n\nIdent{s} = NewType(\"Ident{s}\", int)\n\n\n" + files[m1]
        files[m2] = (f"from {root}.{sid}.sub.deep.{nm['m1']} import Ident{s}\n\n\n" + files[m2]
                     + f"\n\ndef uses_ident{s}(u: Ident{s}) -> Ident{s}:\n    ...\n")
    if sc.get("variant") in ("privtwin", "privtwindeep", "privtwinlate"):      # module 2 moves into a private package
        hid = {"privtwin": f"{sid}/_hid", "privtwindeep": f"{sid}/sub/deep/_hid", "privtwinlate": f"{sid}/sub/zz/_hid"}[sc["variant"]]
        if sc["variant"] == "privtwinlate":
            files[f"{sid}/sub/zz/__init__.py"] = ""
        del files[f"{sid}/sub/{nm['m2']}.py"]
        files[f"{sid}/sub/fillb{s}.py"] = "def fillb" + s + "() -> int:\n    ...\n"
        files[f"{hid}/__init__.py"] = ""
        files[f"{hid}/{nm['m2']}.py"] = decl(2)
    if sc.get("variant") == "pkgmodreexp":   # both declarations live in package files; sub re-exports the package deep as a module
        files[f"{sid}/sub/deep/{nm['m1']}.py"] = "def filldeep" + s + "() -> int:\n    ...\n"
        files[f"{sid}/sub/{nm['m2']}.py"] = "def fillsub" + s + "() -> int:\n    ...\n"
        files[f"{sid}/sub/deep/__init__.py"] = decl(1)
        files[f"{sid}/sub/__init__.py"] = "from . import deep\n\n\n" + decl(2)
        return files
    if sc.get("variant") == "bareimport":    # both modules are private; the package files import top-level modules called like the declarations
        files[f"{sid}/sub/deep/__init__.py"] += f"import {nm[1]}\n"
        files[f"{sid}/sub/__init__.py"] += f"import {nm[2]} as {nm[2]}_mod\nimport {root}.{sid}.sub.{nm['m2']}\n"
        return files
    if sc.get("variant") == "privpkgtop":    # ... the private package lies beside the packages that re-export it (same depth)
        files[f"{sid}/sub/deep/{nm['m1']}.py"] = "def filldeep" + s + "() -> int:\n    ...\n"
        files[f"{sid}/_2d/__init__.py"] = decl(1)
        files[f"{sid}/_2d/fill2d.py"] = "def fill2d" + s + "() -> int:\n    ...\n"
        for e in sc["exports"]:
            files["/".join([sid, *AT_PATH[e["at"]], "__init__.py"])] += f"from {root}.{sid}._2d import {nm[1]}" + (f" as {e['alias']}{s}" if e["alias"] else "") + "\n"
        return files
    if sc.get("variant") == "privpkginit":   # declaration 1 lives in the package file of a private sub-package whose name sorts before "__init__.py"
        files[f"{sid}/sub/deep/{nm['m1']}.py"] = "def filldeep" + s + "() -> int:\n    ...\n"
        files[f"{sid}/sub/_2d/__init__.py"] = decl(1)
        files[f"{sid}/sub/_2d/fill2d.py"] = "def fill2d" + s + "() -> int:\n    ...\n"
        for e in sc["exports"]:
            files["/".join([sid, *AT_PATH[e["at"]], "__init__.py"])] += f"from {root}.{sid}.sub._2d import {nm[1]}" + (f" as {e['alias']}{s}" if e["alias"] else "") + "\n"
        return files
    if sc.get("variant") == "pkgnamed":      # the package "deep" is called like declaration 1, which it re-exports from a private module; declaration 2 lives in its package file
        files = {k.replace(f"{sid}/sub/deep/", f"{sid}/sub/{nm[1]}/"): t for k, t in files.items()}
        del files[f"{sid}/sub/{nm['m2']}.py"]
        files[f"{sid}/sub/fillb{s}.py"] = "def fillb" + s + "() -> int:\n    ...\n"
        files[f"{sid}/sub/{nm[1]}/__init__.py"] = f"from ._moda import {nm[1]}\n\n\n" + decl(2)
        return files
    if sc.get("variant") == "initdecl":      # declaration 1 lives in the package file; the package keeps a module of its own
        files[f"{sid}/sub/deep/{nm['m1']}.py"] = "def fillinit" + s + "() -> int:\n    ...\n"
        files[f"{sid}/sub/deep/__init__.py"] = decl(1)
    for e in sc["exports"]:
        mod = ".".join([root, sid, "sub", "deep", nm["m1"]] if e["tgt"] == 1 or sc.get("variant") == "sharedbase" else [root, sid, "sub", nm["m2"]])
        line = f"from {mod} import {nm.get(e['tgt'], 'x')}" + (f" as {e['alias']}{s}" if e["alias"] else "") + "\n"
        if sc.get("variant") == "stdlibname":      # the standard library's module, not the package's
            line = f"import logging\nfrom logging import {nm[2]}\n"      # (a name the standard library's module does not have; the import is what matters)
        if sc.get("variant") == "samemodule":      # the module as a whole
            line = f"from {'.'.join([root, sid, 'sub', 'deep'])} import {nm['m1']}\n"
        if sc.get("variant") == "samemoduleboth":  # both modules as a whole, each under an alias of its own
            line = f"from {'.'.join([root, sid, 'sub', 'deep'] if e['tgt'] == 1 else [root, sid, 'sub'])} import {nm['m1']} as {e['alias']}{s}\n"
        files["/".join([sid, *([other] if e["at"] == 3 else AT_PATH[e["at"]]), "__init__.py"])] += line
    return files


def u2_observe(sc, stubs: Stubs, rootname: str, idx: dict | None = None) -> dict:
    mark = sfx(sc["id"])
    sid = f"s{sc['id']:04d}"
    nm = u2_names(sc)
    occs = {1: [], 2: []}
    for rel, f in stubs.files.items():
        for d in f.members:
            if mark not in d.pyname:
                continue
            tgt = 0
            if d.kind == "fun":
                for p in d.params or []:
                    if p["pyname"] in ("from_d1", "from_d2"):
                        tgt = int(p["pyname"][-1])
            elif d.kind == "class":
                for m in d.members:
                    if m.pyname in ("m_d1", "m_d2"):
                        tgt = int(m.pyname[-1])
            if tgt:
                shown = d.pyname.replace(mark, "")
                if sc.get("variant") == "samenameboth":     # the specification calls the two declarations declone / decltwo
                    shown = {"samedecl": "declone" if tgt == 1 else "decltwo"}.get(shown, shown)
                if sc.get("variant") == "suffixalias":      # the specification calls the two declarations declone / decltwo
                    shown = {"tail": "declone", "big_tail": "decltwo"}.get(shown, shown)
                if sc.get("variant") == "pkgnamed":
                    f_home = ["deep" if seg == nm[1] else seg for seg in file_home(f, rootname, sid)]
                else:
                    f_home = file_home(f, rootname, sid)
                occs[tgt].append({"home": [("other" if seg == "_other" and sc.get("variant") == "privreexp" else seg.replace(mark, "")) for seg in f_home], "name": shown,
                                  "members": [m.pyname for m in d.members if not m.pyname.startswith("_")]
                                  + [f"{m.pyname}.{x.pyname}" for m in d.members if m.kind == "class" and not m.pyname.startswith("_") for x in m.members if not x.pyname.startswith("_")],
                                  "privmembers": [m.pyname.replace(mark, "") for m in d.members if m.pyname.startswith("_") and not m.pyname.startswith("__")]})
    jp = {1: "absent", 2: "absent"}
    if idx is not None:
        for t, path in ((1, ["sub", "deep", nm["m1"]]), (2, [*({"privtwin": ["_hid"], "privtwindeep": ["sub", "deep", "_hid"], "privtwinlate": ["sub", "zz", "_hid"]}.get(sc.get("variant"), ["sub"])), nm["m2"]])):
            if sc.get("variant") == "pkgnamed":
                path = ["sub", nm[1], nm["m1"]] if t == 1 else ["sub", nm[1]]
            if sc.get("variant") == "privpkginit" and t == 1:
                path = ["sub", "_2d"]
            if sc.get("variant") == "privpkgtop" and t == 1:
                path = ["_2d"]
            jid = "/".join([rootname, sid, *path, nm[t]])
            e = idx.get("functions" if sc["kind"] == "function" else "classes", {}).get(jid)
            if e is not None:
                jp[t] = "true" if e.get("is_public") else "false"
    return {"decls": [{"tgt": t, "occs": occs[t], "jsonpublic": jp[t]} for t in (1, 2)]}
