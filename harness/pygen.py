"""Concretiser helpers: abstract scenario pieces -> Python source text. No oracle logic."""
from __future__ import annotations

from pathlib import Path

from common import fresh_dir

LIT_SRC = {"@empty": '""', "@s": '"s"', "@its": '"it\'s"', "@dqboth": "'\"quoted\"'", "@dqend": "'say \"hi\"'", "@bsl": "'a\\\\b'"}


def lit_src(src: str) -> str:
    return LIT_SRC.get(src, src)


FOREIGN_LIB = {
    "frgnlib": {
        "__init__.py": "class Shape:\n    pass\n\n\nclass vector:\n    pass\n\n\nclass snake_case_cls:\n    pass\n",
        "core/__init__.py": "class Grid:\n    pass\n",
        "core/frame.py": "class Frame:\n    pass\n\n\nclass frame_two:\n    pass\n",
        # a class that lives in a private module below a snake_case package (the layout of scikit-learn)
        "linear_model/__init__.py": "",
        "linear_model/_base.py": "class Regressor:\n    pass\n",
    },
}
FOREIGN_LIB_USE = (
    "from frgnlib import Shape, vector, snake_case_cls\nfrom frgnlib.core import Grid\nfrom frgnlib.core.frame import Frame, frame_two\n"
    "from frgnlib.linear_model._base import Regressor\n\n\ndef fits(r: Regressor) -> Regressor:\n    ...\n\n\n"
    "def flib(a: Shape, b: vector, c: Grid, d: Frame, e: frame_two, f: snake_case_cls) -> Shape:\n    ...\n\n\nclass FSub(Grid):\n    pass\n"
)


def write_pkg(files: dict[str, str], root_name: str, siblings: dict | None = None) -> Path:
    """files: relative path (under the package root dir) -> text. Returns the package directory.

    The parent directory has no __init__.py and no test/tests/docs segment.
    """
    base = fresh_dir("pkg")
    root = base / root_name
    for rel, text in files.items():
        p = root / rel
        p.parent.mkdir(parents=True, exist_ok=True)
        p.write_text(text, encoding="utf-8")
    # sibling packages: resolvable by the type checker (same parent directory) but not part of the analysed package
    for name, sfiles in (siblings or {}).items():
        for rel, text in sfiles.items():
            p = base / name / rel
            p.parent.mkdir(parents=True, exist_ok=True)
            p.write_text(text, encoding="utf-8")
    return root


def norm_default(d: dict | None) -> dict:
    """Stub default expression -> {t, v} with Python value semantics for numbers."""
    if d is None:
        return {"t": "nodefault", "v": ""}
    t, v = d["t"], d["v"]
    try:
        if t == "int":
            v = str(int(v))
        elif t == "float":
            v = repr(float(v))
    except ValueError:
        pass
    return {"t": t, "v": v}
