"""Concretiser helpers: abstract scenario pieces -> Python source text. No oracle logic."""
from __future__ import annotations

from pathlib import Path

from common import fresh_dir

LIT_SRC = {"@empty": '""', "@s": '"s"', "@its": '"it\'s"'}


def lit_src(src: str) -> str:
    return LIT_SRC.get(src, src)


def write_pkg(files: dict[str, str], root_name: str) -> Path:
    """files: relative path (under the package root dir) -> text. Returns the package directory.

    The parent directory has no __init__.py and no test/tests/docs segment.
    """
    base = fresh_dir("pkg")
    root = base / root_name
    for rel, text in files.items():
        p = root / rel
        p.parent.mkdir(parents=True, exist_ok=True)
        p.write_text(text, encoding="utf-8")
    return root


def norm_default(d: dict | None) -> dict:
    """Stub default expression -> {t, v} with Python value semantics for numbers."""
    if d is None:
        return {"t": "nodefault", "v": ""}
    t, v = d["t"], d["v"]
    try:
        if t == "int":
            v = str(int(v))
        elif t == "float":
            v = repr(float(v))
    except ValueError:
        pass
    return {"t": t, "v": v}
