"""C20 - TODO markers flag exactly the declarations that need manual attention (spec/TodoFlush.tla)."""
from __future__ import annotations

from common import TIER, Verdict
from facts import Stubs, member
from flow import generate, judge
from pygen import write_pkg
from runner import Opts, run_many

PKG = "todopk"
HEAD = "from __future__ import annotations\nfrom abc import ABC\nfrom typing import Callable, Generic, TypeVar\n\n\ndef _helper():\n    ...\n\n\ndef make_default() -> int:\n    ...\n\n\nCONST_DEFAULT = 3\n\n\nclass BaseA:\n    pass\n\n\nclass BaseB:\n    pass\n\n\nclass _PrivBase:\n    def helper(self, q: int) -> int:\n        ...\n\n"


def marker_kinds(todos: list[str]) -> list[str]:
    """Map TODO texts to marker kinds by keyword (robust to rewording)."""
    out = []
    for t in todos:
        s = t.lower()
        if "tuple" in s:
            out.append("tuple")
        elif "list type" in s and "argument" in s:
            out.append("listmulti")
        elif "set type" in s and "argument" in s:
            out.append("setmulti")
        elif "set type" in s or ("set" in s.split() and "support" in s):
            out.append("set")
        elif "position only" in s or "position-only" in s:
            out.append("optposonly")
        elif "name only" in s or "name-only" in s or "keyword only" in s or "keyword-only" in s:
            out.append("reqkwonly")
        elif "multiple inheritance" in s:
            out.append("multi")
        elif "variadic" in s:
            out.append("variadic")
        elif "class method" in s or "classmethod" in s:
            out.append("classmethod")
        elif "parameter" in s and "type" in s:
            out.append("pmiss")
        elif "attribute" in s and "type" in s:
            out.append("amiss")
        elif "result" in s and "type" in s:
            out.append("rmiss")
        elif "value" in s and ("parsed" in s or "unknown" in s):
            out.append("unknownvalue")
        else:
            out.append("other:" + t[:40])
    return sorted(set(out))


MSG_KIND = {"no tuple support": "tuple", "no set support": "set", "List": "listmulti", "Set": "setmulti", "OPT_POS_ONLY": "optposonly",
            "REQ_NAME_ONLY": "reqkwonly", "multiple_inheritance": "multi", "variadic": "variadic", "class_method": "classmethod",
            "param without type": "pmiss", "attr without type": "amiss", "result without type": "rmiss", "unknown value": "unknownvalue"}


def todo_event(e) -> dict:
    """Recorded event -> [e, k, out] with the generator's message keys renamed to the marker kinds of the specification."""
    kind = lambda m: MSG_KIND.get(m, "other:" + str(m))  # noqa: E731
    if e[0] == "raise":
        return {"e": "raise", "k": kind(e[1]), "out": []}
    if e[0] == "flush":
        return {"e": "flush", "k": "", "out": [kind(m) for m in e[1]]}
    return {"e": e[0], "k": e[1].replace("_create_", "").replace("_string", ""), "out": []}


def judge_events(v: Verdict, events: list) -> list[dict]:
    from common import fresh_dir
    from tlc import run_tlc, write_json
    f = write_json(fresh_dir("obs") / "events.json", events)
    r = run_tlc("C20_TodoTrace", "C20_TodoTrace.cfg", workers=1, env={"OBS_FILE": str(f)}, timeout=1800)
    v.add_tlc(r)
    if not r["ok"]:
        v.machinery(f"trace validation C20_TodoTrace failed: {r['errors'][:3]}")
        return []
    if r["distinct"] != len(events) + 1:
        v.machinery(f"trace validation C20_TodoTrace: consumed {r['distinct'] - 1} of {len(events)} events")
    v.traces += 1
    out = []
    for rec in r["records"]:
        if isinstance(rec, dict):
            for b in rec.get("bad", []):
                out.append(dict(b, subject=rec.get("id")))
    return out


def params_src(f: set, recv: str = "") -> str:
    opt = "optposonly" in f
    sfx = " | None = None" if opt else ""
    ps = []
    if recv:
        ps.append(recv)
    if opt:
        ps += ["g: int | None = None" if "@posnone" in f else "g: int = CONST_DEFAULT" if "@poscall" in f else "g: int = 1", "/"]
    ps.append(f"a: int{sfx}")
    if "pmiss" in f:
        ps.append("b")
    if "tuple" in f:
        ps.append(f"c: tuple[int, str]{sfx}")
    if "set" in f and "setmulti" not in f:
        ps.append(f"d: set[int]{sfx}")
    if "listmulti" in f:
        ps.append(f"e: list[int, str]{sfx}")
    if "setmulti" in f:
        ps.append(f"f: set[int, str]{sfx}")
    if "@calltuple" in f:
        ps.append(f"cbt: Callable[[int], tuple[int, str]]{sfx}")
    if "unknownvalue" in f:
        ps.append("k: bool = not True")
    if "variadic" in f:
        ps.append("*args: int")
    if "reqkwonly" in f:
        if "variadic" not in f:
            ps.append("*")
        ps.append("h: int")
    if "@kwnone" in f:
        if "variadic" not in f and "reqkwonly" not in f:
            ps.append("*")
        ps.append("hk: int | None = None")
    if "@kwcall" in f:
        if "variadic" not in f and "reqkwonly" not in f and "@kwnone" not in f:
            ps.append("*")
        ps.append("hc: int = make_default()")
    return ", ".join(ps)


def fun_src(name, f, ind="", recv="") -> str:
    deco = ""
    if "classmethod" in f:
        deco, recv = f"{ind}@classmethod\n", "cls"
    ret = "" if "rmiss" in f else " -> int"
    if "@docset" in f:      # a parameter without hint that the (NumPy style) docstring types as a bare `set`
        ps = params_src(f, recv)
        doc = f'{ind}    """Summary.\n\n{ind}    Parameters\n{ind}    ----------\n{ind}    ds : set\n{ind}        The ds.\n{ind}    """\n'
        return f"{deco}{ind}def {name}({ps}, ds){ret}:\n{doc}{ind}    ...\n".replace("(a: int, ds)", "(ds, a: int = 0)")
    return f"{deco}{ind}def {name}({params_src(f, recv)}){ret}:\n{ind}    ...\n"


def attr_src(name, f, ind="    ") -> str:
    if "@prop" in f:
        ret = "" if "amiss" in f else " -> set[int]"
        return f"{ind}@property\n{ind}def {name}(self){ret}:\n{ind}    return _helper()\n"
    if "amiss" in f:
        return f"{ind}{name} = _helper()\n"
    if "setmulti" in f:
        return f"{ind}{name}: set[int, str]\n"
    if "listmulti" in f:
        return f"{ind}{name}: list[int, str]\n"
    if "set" in f:
        return f"{ind}{name}: set[int]\n"
    if "tuple" in f:
        return f"{ind}{name}: tuple[int, str]\n"
    return f"{ind}{name}: int\n"


def class_src(name, f) -> str:
    if "@tpbound" in f:      # a generic class whose type parameter is bounded by a tuple / set type
        bound = "tuple[int, str]" if "tuple" in f else "set[int]"
        var = "" if "@invariant" in f else "covariant=True, "
        return (f"TV_{name} = TypeVar(\"TV_{name}\", {var}bound={bound})\n\n\nclass {name}(Generic[TV_{name}]):\n    ok: int\n\n"
                f"    def __init__(self, a: int):\n        ...\n\n    def m(self, z: int) -> int:\n        ...\n\n"
                f"    def uses_tv(self, other: TV_{name}) -> int:\n        ...\n")       # shows the type parameter, not its bound
    bases = "(BaseA, BaseB)" if "multi" in f else ""
    if "@privbase" in f:
        bases = "(BaseA, BaseB, _PrivBase)"
    if "@privfirst" in f:
        bases = "(_PrivBase, BaseA, BaseB)"
    if "@abc" in f:
        bases = "(ABC, BaseA, BaseB)"
    if "@abconly" in f:
        bases = "(ABC)"
    ctor = f - {"multi", "@privbase", "@privfirst", "@abc", "@abconly"}
    return (f"class {name}{bases}:\n    ok: int\n\n    def __init__({params_src(ctor, 'self')}):\n        ...\n\n"
            f"    def m(self, z: int) -> int:\n        ...\n")


def nm(vis, base):
    return base if vis else "_" + base


def types_in(t, acc):
    if not t:
        return
    if t["k"] == "named":
        acc.append((t["n"], len(t["a"])))
        for x in t["a"]:
            types_in(x, acc)
    elif t["k"] == "union":
        for x in t["a"]:
            types_in(x, acc)
    elif t["k"] == "callable":
        for p in t["p"]:
            types_in(p["type"], acc)
        for r in t["r"]:
            types_in(r["type"], acc)


def shown_of(d) -> list[str]:
    acc, out = [], set()
    for p in d.params or []:
        if p["type"] is None:
            out.add("pmiss")
        types_in(p["type"], acc)
        if p["default"] and p["default"]["t"] == "unknown":
            out.add("unknownvalue")
    for r in d.results:
        types_in(r["type"], acc)
    for tp in d.typeparams:
        types_in(tp["bound"], acc)
    if d.kind == "attr":
        if d.type is None:
            out.add("amiss")
        types_in(d.type, acc)
    if d.kind == "class" and len(d.supers) >= 2:
        out.add("multi")
    for n, k in acc:
        if n == "Tuple":
            out.add("tuple")
        if n == "Set":
            out.add("set")
            if k >= 2:
                out.add("setmulti")
        if n == "List" and k >= 2:
            out.add("listmulti")
    return sorted(out)


def main(v: Verdict) -> None:
    scs = generate(v, "TodoFlush", "C20_MC.cfg" if TIER == "quick" else "C20_MC_thorough.cfg", min_records=500)
    if not scs:
        return
    mods = {"module": [HEAD], "class-methods": [HEAD], "class-attrs": [HEAD], "module-classes": [HEAD], "module-doc": [HEAD], "class-methods-doc": [HEAD]}
    modname = {"module": "mfun", "class-methods": "mmeth", "class-attrs": "mattr", "module-classes": "mcls", "module-doc": "mfundoc", "class-methods-doc": "mmethdoc"}
    expect = []          # (cont, locator, shape, prev features)
    for t, sc in enumerate(scs):
        cont, decls = sc["cont"], sc["decls"]
        prev = []
        if cont in ("module", "module-doc"):
            for k, d in enumerate(decls):
                name = nm(d["vis"], f"t{t}_{k}")
                mods[cont].append(fun_src(name, set(d["f"])) + "\n")
                expect.append((cont, ("top", name), d, prev))
                prev = d["f"]
        elif cont == "module-classes":
            for k, d in enumerate(decls):
                name = nm(d["vis"], f"C{t}_{k}")
                mods[cont].append(class_src(name, set(d["f"])) + "\n")
                expect.append((cont, ("top", name), d, prev))
                prev = d["f"]
        else:
            body = []
            for k, d in enumerate(decls):
                name = nm(d["vis"], f"x{k}")
                if cont in ("class-methods", "class-methods-doc"):
                    body.append(fun_src(name, set(d["f"]), "    ", "self") + "\n")
                else:
                    body.append(attr_src(name, set(d["f"])))
                expect.append((cont, ("member", f"K{t}", name), d, prev))
                prev = d["f"]
            mods[cont].append(f"class K{t}:\n" + "".join(body) + "\n")
    files, docfiles = {"__init__.py": ""}, {"__init__.py": ""}
    for cont, parts in mods.items():
        (docfiles if cont.endswith("-doc") else files)[modname[cont] + ".py"] = "\n".join(parts)
    pkg = write_pkg(files, PKG)
    docpkg = write_pkg(docfiles, PKG + "doc")      # the documented declarations, analysed with the NumPy style
    r, rdoc = run_many([{"src": pkg, "opts": Opts(), "timeout": 900, "trace_todo": True}, {"src": docpkg, "opts": Opts(docstyle="NUMPYDOC"), "timeout": 900}])
    for rr in (r, rdoc):
        if rr.exit != "ok":
            v.machinery(f"run failed: {rr.exit} {rr.exc} {rr.frame} {rr.msg}")
            return
    tops: dict[str, list] = {}
    for rr in (r, rdoc):
        for rel, f in Stubs(rr).files.items():
            for d in f.members:
                tops.setdefault(d.pyname, []).append(d)
    obs = []
    for cont, loc, shape, prev in expect:
        if not shape["vis"]:
            continue
        if loc[0] == "top":
            ds = tops.get(loc[1], [])
            d = ds[0] if len(ds) == 1 else None
        else:
            cs = tops.get(loc[1], [])
            d = member(cs[0], loc[2]) if len(cs) == 1 else None
        base = {"cont": cont, "shape": shape, "prev": prev}
        if d is None:
            o = dict(base, missing=True, shown=[], todos=[])
        else:
            o = dict(base, missing=False, shown=shown_of(d), todos=marker_kinds(d.todos))
        obs.append({"id": "/".join(loc[1:]), "obs": o})
        if cont == "module-classes" and d is not None:
            # the members of the class (own and inherited from private bases) carry exactly their own markers
            for m in d.members:
                obs.append({"id": f"{loc[1]}/{m.pyname}", "obs": {"cont": "module-classes-member", "shape": {"c": m.kind, "vis": True, "f": []}, "prev": shape["f"],
                                                                    "missing": False, "shown": shown_of(m), "todos": marker_kinds(m.todos)}})
    bad = judge(v, "C20_Trace", obs)
    # the bookkeeping itself: the real generator's raise / flush / enter events stepped through TodoFlush's actions
    events = [todo_event(e) for e in r.todo]
    v.extra["bookkeeping_events_validated"] = len(events)
    if not events and "todo_error" in r.msg:
        # the private helpers the recorder wraps do not exist under these names: the bookkeeping is not observable at event level
        v.extra["bookkeeping_trace_unobservable"] = r.msg[-300:]
    elif len(events) < 1000:
        v.machinery(f"only {len(events)} bookkeeping events were recorded {r.msg}")
    else:
        tb = judge_events(v, events)
        for b in tb:
            b["events_before"] = events[max(0, int(b.get("subject") or 1) - 8): int(b.get("subject") or 1)]
        bad += tb
    by_id = {o["id"]: o for o in obs}
    for b in bad:
        o = by_id.get(b.get("subject"))
        if o:
            b["declaration"] = o["obs"]
    v.add_bad(bad)
    v.samples = [o for o in obs[:: max(1, len(obs) // 3)]][:3]
    v.extra["scenarios_generated"] = len(scs)
    v.extra["declarations_judged"] = len(obs)
    v.assumptions += ["TODO lines are mapped to marker kinds by keyword", "stub parser harness/sds.py is hand-written", "mypy 1.20.2"]
