"""C14 - type-source preference settles only real conflicts; warnings never alter output (spec/Reconcile.tla)."""
from __future__ import annotations

import json
import re

from common import TIER, Verdict, sha
from facts import Stubs, type_term
from flow import generate, judge
from pygen import write_pkg
from runner import Opts, run_many

PYT = {"int": "int", "str": "str", "listint": "list[int]", "free": "positive number of entries"}
MOD = "recmod"


def docstring(style, params, res, res2=None, res3=None, unnamed=False) -> str:
    L = ['    """Summary line.', ""]
    if style == "NUMPYDOC":
        if params:
            L += ["    Parameters", "    ----------"]
            for k, p in enumerate(params):
                L.append(f"    p{k + 1} : {PYT[p['doc']]}" if p["doc"] != "none" else f"    p{k + 1}")
                L.append(f"        Parameter {k + 1}.")
            L.append("")
        if res2 is not None and res2["hint"] != "absent":
            n1, n2 = ("", "") if unnamed else ("r1 : ", "r2 : ")
            L += ["    Returns", "    -------", f"    {n1}{PYT[res['doc']]}", "        First result.", f"    {n2}{PYT[res2['doc']]}", "        Second result."]
            if res3 is not None and res3["doc"] != "absent":
                L += [f"    r3 : {PYT[res3['doc']]}", "        Third result, known from the docstring only."]
            L.append("")
        elif res["doc"] != "none":
            L += ["    Returns", "    -------", f"    {PYT[res['doc']]}", "        The result.", ""]
    elif style == "GOOGLE":
        if params:
            L.append("    Args:")
            for k, p in enumerate(params):
                L.append(f"        p{k + 1} ({PYT[p['doc']]}): Parameter {k + 1}." if p["doc"] != "none" else f"        p{k + 1}: Parameter {k + 1}.")
            L.append("")
        if res["doc"] != "none":
            L += ["    Returns:", f"        {PYT[res['doc']]}: The result.", ""]
    else:
        for k, p in enumerate(params):
            # in-line directive type: griffe gives it precedence over the signature annotation (a separate ":type:" line
            # after ":param:" loses against the annotation inside griffe, before the tool sees anything)
            L.append(f"    :param {PYT[p['doc']]} p{k + 1}: Parameter {k + 1}." if p["doc"] != "none" else f"    :param p{k + 1}: Parameter {k + 1}.")
        if res["doc"] != "none":
            L += ["    :return: The result.", f"    :rtype: {PYT[res['doc']]}"]
    L.append('    """')
    return "\n".join(L)


def concretise(style, shapes) -> str:
    out = ["from __future__ import annotations", ""]
    for idx, (params, res, res2, res3, unnamed) in enumerate(shapes):
        two = res2["hint"] != "absent"
        if two and style != "NUMPYDOC":
            out.append(f"def f{idx}() -> int:\n    ...\n\n")          # placeholder: two-result shapes exist for NumPy style only
            continue
        ps = ", ".join(f"p{k + 1}" + (f": {PYT[p['hint']]}" if p["hint"] != "none" else "") for k, p in enumerate(params))
        ret = f" -> tuple[{PYT[res['hint']]}, {PYT[res2['hint']]}]" if two else (f" -> {PYT[res['hint']]}" if res["hint"] != "none" else "")
        out.append(f"def f{idx}({ps}){ret}:\n{docstring(style, params, res, res2, res3, unnamed)}\n    ...\n\n")
    return "\n".join(out)


def selfnamed_src(style) -> str:
    """A module-level function and a static method whose ordinary parameters are called self / cls (no receiver among them)."""
    def doc(ind):
        return {"NUMPYDOC": f'{ind}"""Summary line.\n\n{ind}Parameters\n{ind}----------\n{ind}self : str\n{ind}    The first.\n{ind}cls : str\n{ind}    The second.\n{ind}"""',
                "GOOGLE": f'{ind}"""Summary line.\n\n{ind}Args:\n{ind}    self (str): The first.\n{ind}    cls (str): The second.\n{ind}"""',
                "REST": f'{ind}"""Summary line.\n\n{ind}:param str self: The first.\n{ind}:param str cls: The second.\n{ind}"""'}[style]
    return (f"def attach(self: int, cls) -> int:\n{doc('    ')}\n    ...\n\n\n"
            f"class SelfHolder:\n    @staticmethod\n    def sattach(self: int, cls) -> int:\n{doc('        ')}\n        ...\n")


def twin_src(style) -> str:
    """A module with a class Config of its own and a function whose docstring types both parameters as Config."""
    doc = {"NUMPYDOC": '    """Summary line.\n\n    Parameters\n    ----------\n    c : Config\n        The c.\n    d : Config\n        The d.\n    """',
           "GOOGLE": '    """Summary line.\n\n    Args:\n        c (Config): The c.\n        d (Config): The d.\n    """',
           "REST": '    """Summary line.\n\n    :param Config c: The c.\n    :param Config d: The d.\n    """'}[style]
    return f"class Config:\n    pass\n\n\ndef use_twin(c: Config, d) -> int:\n{doc}\n    ...\n"


def main(v: Verdict) -> None:
    scs = generate(v, "Reconcile", "C14_MC.cfg", min_records=1000)
    if not scs:
        return
    shapes_key = sorted({json.dumps([sc["params"], sc["res"], sc["res2"], sc["res3"], sc["unnamed"]], sort_keys=True) for sc in scs})
    shapes = [tuple(json.loads(k)) for k in shapes_key]
    index = {k: i for i, k in enumerate(shapes_key)}
    jobs, meta = [], []
    for style in ("GOOGLE", "NUMPYDOC", "REST"):
        pkg = f"recpk{style.lower()[:4]}"
        # a function of the package file that is called like a module of the package (the docstring library lists the module under that name)
        pf_params, pf_res = [{"hint": "none", "doc": "str"}, {"hint": "int", "doc": "str"}], {"hint": "int", "doc": "none"}
        pkgfile = "from __future__ import annotations\n\n\ndef lookup(p1, p2: int) -> int:\n" + docstring(style, pf_params, pf_res) + "\n    ...\n"
        d = write_pkg({"__init__.py": pkgfile, "lookup.py": "\"\"\"Module lookup.\"\"\"\n\n\ndef other_fn() -> int:\n    ...\n", "selfmod.py": selfnamed_src(style), f"{MOD}.py": concretise(style, shapes), "twina.py": twin_src(style), "twinb.py": twin_src(style), "twinz.py": twin_src(style)}, pkg)
        for pref in ("CODE", "DOCSTRING"):
            for warn in ("WARN", "IGNORE"):
                jobs.append({"src": d, "opts": Opts(docstyle=style, tsp=pref, tsw=warn), "timeout": 600})
                meta.append((style, pref, warn, pkg))
    runs = run_many(jobs)
    by = {}
    for (style, pref, warn, pkg), r in zip(meta, runs):
        if r.exit != "ok":
            v.extra.setdefault("unobservable", []).append({"run": (style, pref, warn), "exit": r.exit, "exc": r.exc, "frame": r.frame, "msg": r.msg})
            continue
        stubs = Stubs(r)
        counts: dict[int, int] = {}
        pat = re.compile(re.escape(f"{pkg}/{MOD}/f") + r"(\d+)(?![0-9A-Za-z_])")
        for w in r.warnings:
            if w["level"] != "WARNING":
                continue
            for m in pat.finditer(w["msg"]):
                counts[int(m.group(1))] = counts.get(int(m.group(1)), 0) + 1
        by[(style, pref, warn)] = (r, stubs, counts)
    obs = []
    for sc in scs:
        key = (sc["style"], sc["pref"], sc["warn"])
        if key not in by:
            continue
        r, stubs, counts = by[key]
        idx = index[json.dumps([sc["params"], sc["res"], sc["res2"], sc["res3"], sc["unnamed"]], sort_keys=True)]
        tops = stubs.top(f"f{idx}")
        if len(tops) != 1 or tops[0][1].kind != "fun":
            o = {"missing": True, "ptys": [], "rtys": [], "nwarn": 0}
        else:
            d = tops[0][1]
            o = {"missing": False, "ptys": [type_term(p["type"]) for p in d.params], "rtys": [type_term(x["type"]) for x in d.results],
                 "nwarn": counts.get(idx, 0)}
        obs.append({"id": f"{sc['style']}-{sc['pref']}-{sc['warn']}#f{idx}", "kind": "fn", "sc": sc, "obs": o})
    for (style, pref, warn), (r, stubs, counts) in sorted(by.items()):
        api = r.api() or {}
        pkg = f"recpk{style.lower()[:4]}"
        tops = [x for x in stubs.top("lookup") if x[1].kind == "fun"]
        sc_pf = {"params": [{"hint": "none", "doc": "str"}, {"hint": "int", "doc": "str"}], "res": {"hint": "int", "doc": "none"}, "res2": {"hint": "absent", "doc": "absent"},
                 "res3": {"hint": "absent", "doc": "absent"}, "unnamed": False, "style": style, "pref": pref, "warn": warn}
        if len(tops) != 1:
            o = {"missing": True, "ptys": [], "rtys": [], "nwarn": 0}
        else:
            dd = tops[0][1]
            nw = sum(1 for w in r.warnings if w["level"] == "WARNING" and re.search(re.escape(f"{pkg}/lookup") + r"(?![0-9A-Za-z_/])", w["msg"]))
            o = {"missing": False, "ptys": [type_term(p["type"]) for p in dd.params], "rtys": [type_term(x["type"]) for x in dd.results], "nwarn": nw}
        obs.append({"id": f"{style}-{pref}-{warn}#package-file-function", "kind": "fn", "sc": sc_pf, "obs": o})
        # ordinary parameters that are called self / cls: first hinted int and documented str, second documented only
        sc_sn = dict(sc_pf, params=[{"hint": "int", "doc": "str"}, {"hint": "none", "doc": "str"}])
        from facts import member
        cands = [("attach", [x[1] for x in stubs.top("attach") if x[1].kind == "fun"], f"{pkg}/selfmod/attach"),
                 ("sattach", [m for m in (member(x[1], "sattach", "fun") for x in stubs.top("SelfHolder") if x[1].kind == "class") if m is not None], f"{pkg}/selfmod/SelfHolder/sattach")]
        for nm_, found, fid in cands:
            if len(found) != 1:
                o = {"missing": True, "ptys": [], "rtys": [], "nwarn": 0}
            else:
                dd = found[0]
                nw = sum(1 for w in r.warnings if w["level"] == "WARNING" and re.search(re.escape(fid) + r"(?![0-9A-Za-z_/])", w["msg"]))
                o = {"missing": False, "ptys": [type_term(p["type"]) for p in dd.params], "rtys": [type_term(x["type"]) for x in dd.results], "nwarn": nw}
            obs.append({"id": f"{style}-{pref}-{warn}#parameters-called-self-cls:{nm_}", "kind": "fn", "sc": sc_sn, "obs": o})
        params = {p["id"]: p for p in api.get("parameters", [])}
        for mod in ("twina", "twinb", "twinz"):
            ptypes = []
            for pn in ("c", "d"):
                t = (params.get(f"{pkg}/{mod}/use_twin/{pn}") or {}).get("type") or {}
                q = t.get("qname", "@none")
                ptypes.append(q[len(pkg) + 1:] if q.startswith(pkg + ".") else q)
            f = next((f for rel, f in stubs.files.items() if (f.pymodule or f.package).endswith("." + mod)), None)
            nwarn = sum(1 for w in r.warnings if w["level"] == "WARNING" and f"{pkg}/{mod}/use_twin" in w["msg"])
            obs.append({"id": f"twin-{style}-{pref}-{warn}-{mod}", "kind": "twin", "sc": {"style": style, "pref": pref, "warn": warn},
                        "obs": {"mod": mod, "ptypes": ptypes, "imported": [name for _, name, _ in f.imports] if f else ["@no-stub"], "nwarn": nwarn}})
    for style in ("GOOGLE", "NUMPYDOC", "REST"):
        for pref in ("CODE", "DOCSTRING"):
            a, b = by.get((style, pref, "WARN")), by.get((style, pref, "IGNORE"))
            if a and b:
                da = sha(json.dumps(sorted(a[0].files.items())))
                db = sha(json.dumps(sorted(b[0].files.items())))
                obs.append({"id": f"pair-{style}-{pref}", "kind": "pair",
                            "sc": {"params": [], "res": {"hint": "none", "doc": "none"}, "res2": {"hint": "absent", "doc": "absent"}, "res3": {"hint": "absent", "doc": "absent"}, "unnamed": False, "style": style, "pref": pref, "warn": "WARN"},
                            "obs": {"a": da, "b": db}})
    bad = judge(v, "C14_Trace", obs)
    by_id = {o["id"]: o for o in obs}
    for b in bad:
        o = by_id.get(b.get("subject"))
        if o and o["kind"] == "fn":
            b["python"] = concretise(o["sc"]["style"], [(o["sc"]["params"], o["sc"]["res"], o["sc"]["res2"], o["sc"]["res3"], o["sc"]["unnamed"])])
            b["options"] = {k: o["sc"][k] for k in ("style", "pref", "warn")}
    v.add_bad(bad)
    v.samples = [{"scenario": o["sc"], "observed": o["obs"]} for o in obs[:: max(1, len(obs) // 3)]][:3]
    v.extra["scenarios_generated"] = len(scs)
    v.extra["scenarios_replayed"] = len(obs)
    v.extra["runs"] = len(runs)
    v.assumptions += ["a WARNING record is attributed to function f when its message contains f's id (wording is not matched)",
                      "stub parser harness/sds.py is hand-written", "mypy 1.20.2, griffe 0.48"]
