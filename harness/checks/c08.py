"""C08 - output is a deterministic function of package contents and options (spec/Determinism.tla)."""
from __future__ import annotations

import json

from common import TIER, Verdict, fresh_dir, sha
from flow import generate, judge
from pygen import write_pkg
from runner import Opts, run_many

RICH = {
    "__init__.py": "from .pa import *\nfrom .pb.modb import Shared2, helper_b\nfrom .sub.deep.moddeep import DeepCls, deep_fun\nfrom .pa.moda import Gamma as GammaAlias\n",
    "pa/__init__.py": "from .moda import Shared, Alpha, Beta\n",
    "pb/__init__.py": "from detpk.pa.moda import Shared\nfrom .modb import Shared2\n",
    "pa/moda.py": "class Shared:\n    pass\n\n\nclass Alpha:\n    pass\n\n\nclass Beta:\n    pass\n\n\nclass Gamma:\n    pass\n",
    "pb/modb.py": "class Shared2:\n    pass\n\n\ndef helper_b(a: int) -> int:\n    ...\n",
    "sub/__init__.py": "",
    "sub/deep/__init__.py": "",
    "sub/deep/moddeep.py": "class DeepCls:\n    pass\n\n\ndef deep_fun() -> int:\n    ...\n",
    # one alias name bound to different classes in two modules whose names share a prefix
    "core_widgets.py": "class Widget:\n    pass\n",
    "core_extra.py": "class Gadget:\n    pass\n\n\nHandle = Gadget\n\n\ndef extra(h: Handle) -> Handle:\n    ...\n",
    "core.py": "from typing import Final\n\nfrom detpk.core_widgets import Widget\n\nHandle = Widget\n\n\nclass Holder:\n    handle: Final[Handle] = Widget()\n\n    def get(self, h: Handle) -> Handle:\n        ...\n",
    # one class name imported from two libraries that are not installed (the type checker knows only the import)
    "unres_a.py": "from gadgetlib_one import Widget\n\n\ndef fa(w: Widget) -> Widget:\n    ...\n",
    "unres_z.py": "from gadgetlib_two import Widget\n\n\ndef fz(w: Widget) -> Widget:\n    ...\n",
    "dup1.py": "class Same:\n    pass\n\n\ndef use1(a: list[Same, int], b: set[Same, str]) -> Same:\n    ...\n",
    "dup2.py": "class Same:\n    pass\n\n\ndef use2(a: list[Same, int]) -> Same:\n    ...\n",
    # one module uses two classes of the same simple name (two import lines for one name)
    "twosame.py": "from detpk.dup1 import Same as SameA\nfrom detpk.dup2 import Same as SameB\n\n\ndef both(a: SameA, b: SameB) -> SameA:\n    ...\n\n\nclass Child(SameB):\n    pass\n",
    "user.py": '''from __future__ import annotations
from collections import OrderedDict, Counter
from decimal import Decimal
from fractions import Fraction
from pathlib import Path, PurePath
from typing import Literal, TypeVar
from detpk.pa.moda import Shared, Alpha, Beta, Gamma
from detpk.pb.modb import Shared2
from detpk.sub.deep.moddeep import DeepCls

T = TypeVar("T")
U = TypeVar("U")
V = TypeVar("V", bound=int)


def many_types(a: Shared, b: Path, c: Decimal, d: Alpha | Beta | int | None, e: PurePath, f: Fraction, g: DeepCls, h: Shared2, i: Gamma) -> OrderedDict[str, Counter[str]]:
    ...


def type_vars(a: T, b: U, c: V) -> tuple[T, U, V]:
    ...


def markers(a, b: tuple[int, str], c: set[int], /, *args, k: list[int, str], **kw):
    ...


def inferred(x=0):
    if x == 1:
        return 1
    if x == 2:
        return "s"
    if x == 3:
        return 2.5
    if x == 4:
        return (1, "s", None)
    return True, 2


def lits(a: Literal["b", "a", "c"] | Literal[2, 1] | None) -> Literal["z", "y"]:
    ...


class Multi(Alpha, Beta, Shared):
    at1: tuple[int, str]
    at2: set[Shared]

    def __init__(self, x: Shared | Alpha | None = None):
        self.inst: Beta | Alpha | Shared = Alpha()
''',
}
TIE = {
    "__init__.py": "",
    # three packages of equal depth re-export one class and one whole module
    "pa/__init__.py": "from tiepk.core.shared import Shared\nfrom tiepk.core.deep import helpers\n",
    "pb/__init__.py": "from tiepk.core.shared import Shared\nfrom tiepk.core.deep import helpers\n",
    "pc/__init__.py": "from tiepk.core.shared import Shared\nfrom tiepk.core.deep import helpers\n",
    "core/deep/__init__.py": "",
    "core/deep/helpers.py": "def helper_fun() -> int:\n    ...\n\n\nclass HelperCls:\n    pass\n",
    "core/__init__.py": "",
    "core/shared.py": "class Shared:\n    pass\n",
    "core/user.py": "from tiepk.core.shared import Shared\n\n\ndef use(a: Shared) -> Shared:\n    ...\n",
    "pa/moda.py": "X = 1\n\n\ndef fa() -> int:\n    ...\n", "pb/modb.py": "def fb() -> int:\n    ...\n", "pc/modc.py": "def fc() -> int:\n    ...\n",
}


# the directory given with -s is not a package: the analysed package is the nearest one below it (fewest path segments),
# whatever the order in which the file system enumerates the sub-directories ("aaa" holds the deeper one, "zzz" the nearer one,
# and the other way round)
# a class that is defined in the package file of a sub-package and re-exported by the parent package (the package files reach the
# analyser as ancestors of whichever module the file system lists first); a parameter whose meaning depends on type checker settings
ORD = {
    "__init__.py": "from .alpha import Thing\n",
    "alpha/__init__.py": "class Thing:\n    \"\"\"Thing doc.\"\"\"\n\n    def run(self) -> int:\n        \"\"\"Run doc.\"\"\"\n",
    "alpha/amod.py": "def fa() -> int:\n    \"\"\"Fa doc.\n\n    Returns\n    -------\n    total : int\n        The total doc.\n    \"\"\"\n",
    "zmod.py": "def gz(v: int = None, w: str = \"a\") -> int:\n    ...\n",
    "beta/__init__.py": "from ordpk.alpha import Thing\n\n\nclass Other:\n    pass\n",
    # a class whose docstring documents the constructor parameter and an attribute
    "beta/circle.py": ("class Circle:\n    \"\"\"Circle doc.\n\n    Parameters\n    ----------\n    radius : float\n        The radius doc.\n\n    Attributes\n    ----------\n"
                       "    area : float\n        The area doc.\n    \"\"\"\n\n    def __init__(self, radius):\n        self.radius = radius\n        self.area = 0.0\n\n\n"
                       "def compute(value: int, scale: float = 1.0) -> float:\n    \"\"\"Compute doc.\n\n    Parameters\n    ----------\n    value : int\n        The value doc.\n    scale : float\n        The scale doc.\n    \"\"\"\n"),
    "beta/bmod.py": "def fb() -> int:\n    ...\n",
}
ROOTS = {
    "rootpk": {"aaa/deep/inner/__init__.py": "", "aaa/deep/inner/modi.py": "def inner_fun() -> int:\n    ...\n",
               "zzz/top/__init__.py": "", "zzz/top/modt.py": "class Top:\n    pass\n"},
    "rootpq": {"zzz/deep/inner/__init__.py": "", "zzz/deep/inner/modi.py": "def inner_fun() -> int:\n    ...\n",
               "aaa/top/__init__.py": "", "aaa/top/modt.py": "class Top:\n    pass\n",
               "mmm/mid/way/down/__init__.py": "", "mmm/mid/way/down/modd.py": "def down() -> int:\n    ...\n"},
}


def main(v: Verdict) -> None:
    recs = generate(v, "Determinism", "C08_MC.cfg" if TIER == "quick" else "C08_MC_thorough.cfg", min_records=1)
    if not recs:
        return
    envs = recs[0]
    envs.sort(key=lambda e: (e["seed"] != 0 or e["glob"] != 0 or e["cwd"] != "parent" or e["spelling"] != "abs" or e["rep"] != 1, json.dumps(e, sort_keys=True)))
    pkgs = {"detpk": write_pkg(RICH, "detpk"), "tiepk": write_pkg(TIE, "tiepk"), "ordpk": write_pkg(ORD, "ordpk")}
    pkgs.update({name: write_pkg(files, name) for name, files in ROOTS.items()})
    jobs, meta = [], []
    for name, d in pkgs.items():
        for e in envs:
            kw = {"src": d, "opts": Opts(docstyle="NUMPYDOC"), "hashseed": 0 if e["seed"] == 0 else e["seed"] * 7 + 1,
                  "globperm": None if e["glob"] == 0 else e["glob"], "spelling": e["spelling"], "timeout": 300}
            if e["cwd"] == "elsewhere":
                kw["cwd"] = fresh_dir("cwd")
                kw["out"] = kw["cwd"] / "nested" / "out"
                # that working directory happens to hold configuration files of the type checker
                (kw["cwd"] / "mypy.ini").write_text("[mypy]\nimplicit_optional = True\nstrict_optional = False\n")
                (kw["cwd"] / "setup.cfg").write_text("[mypy]\nimplicit_optional = True\n")
                # ... and another checkout of a package of the same name, with other documentation
                import shutil
                shutil.copytree(d, kw["cwd"] / d.name)
                for f in (kw["cwd"] / d.name).rglob("*.py"):
                    f.write_text(f.read_text().replace(" doc.", " text of the other checkout."))
            elif e["cwd"] == "ancestor":
                import shutil
                kw["cwd"] = fresh_dir("cwd")
                shutil.copytree(d, kw["cwd"] / "proj" / "lib" / d.name)      # proj and lib are plain directories
                kw["src"] = kw["cwd"] / "proj" / "lib" / d.name
                kw["out"] = kw["cwd"] / "out"
            elif e["spelling"] == "rel":
                kw["cwd"] = fresh_dir("cwd")
                kw["out"] = kw["cwd"] / "out"
            jobs.append(kw)
            meta.append((name, e))
    runs = run_many(jobs)
    # repetition: the same command once more, into the output directory the first run has populated
    from runner import run_cli
    for j, ((name, e), r) in enumerate(zip(meta, runs)):
        if e["rep"] == 2 and r.exit == "ok":
            runs[j] = run_cli(jobs[j]["src"], jobs[j]["opts"], out=r.out, hashseed=jobs[j]["hashseed"], timeout=300)
    by = {}
    for (name, e), r in zip(meta, runs):
        by.setdefault(name, []).append((e, r))
    obs = []
    for name, items in by.items():
        if any(r.exit != "ok" for _, r in items):
            v.extra.setdefault("unobservable", []).append({"package": name, "exits": sorted({r.exit + ":" + r.exc + ":" + r.frame for _, r in items})})
            items = [(e, r) for e, r in items if r.exit == "ok"]
            if len(items) < 2:
                continue
        base = items[0][1].files
        rr = []
        for e, r in items:
            diff = next((p for p in sorted(set(base) | set(r.files)) if base.get(p) != r.files.get(p)), "")
            rr.append({"env": e, "digest": sha(json.dumps(sorted(r.files.items()))), "difffile": diff,
                       "diffkind": "" if not diff else ("api-json" if diff.endswith(".json") else "stub")})
        obs.append({"id": name, "obs": {"package": name, "runs": rr}})
    if not obs:
        v.machinery("nothing observable")
        return
    bad = judge(v, "C08_Trace", obs)
    v.add_bad(bad)
    v.samples = [{"package": o["id"], "runs": o["obs"]["runs"][:3]} for o in obs]
    v.extra["environments"] = len(envs)
    v.extra["runs"] = len(runs)
    v.traces = len(runs)
    v.assumptions += ["hash seeds and enumeration orders are sampled (DESIGN 7 C08), not exhausted", "enumeration order is varied by permuting pathlib.Path.glob results in the child process"]
