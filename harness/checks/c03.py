"""C03 - every public declaration appears in the stubs exactly once (spec/Package.tla, universe U1)."""
from checks.topocheck import run_topology


def main(v):
    run_topology(v, ("C03",))
