"""C03 - every public declaration appears in the stubs exactly once (spec/Package.tla universe U1, spec/Package2.tla universe U2)."""
from checks.topocheck import run_topology, run_topology2


def main(v):
    run_topology(v, ("C03",))
    run_topology2(v)
