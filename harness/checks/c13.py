"""C13 - docstring text reaches the right element intact, whatever the style (spec/DocCache.tla, spec/DocAttach.tla)."""
from __future__ import annotations

import re
from types import SimpleNamespace

from common import TIER, Verdict, sha
from facts import Stubs
from flow import generate, judge
from pygen import write_pkg
from runner import Opts, run_many
import sds

TOK = re.compile(r"tok_[A-Za-z_]*[A-Za-z]")
STYLES = ["NUMPYDOC", "GOOGLE", "REST"]


def und(o: str) -> str:
    return o.replace(".", "_")


def section(style, kind, entries, ind) -> list[str]:
    """entries: [(name, type, text)]"""
    if not entries:
        return []
    L = []
    if style == "NUMPYDOC":
        title = {"param": "Parameters", "attr": "Attributes", "ret": "Returns", "ex": "Examples"}[kind]
        L += [f"{ind}{title}", f"{ind}{'-' * len(title)}"]
        for n, t, x in entries:
            if kind == "ex":
                L += [f"{ind}{xl}" for xl in x.split("\n")]
            elif kind == "ret":
                L += [f"{ind}{t}", f"{ind}    {x}"]
            else:
                L += [f"{ind}{n} : {t}", f"{ind}    {x}"]
    elif style == "GOOGLE":
        title = {"param": "Args:", "attr": "Attributes:", "ret": "Returns:", "ex": "Examples:"}[kind]
        L.append(f"{ind}{title}")
        for n, t, x in entries:
            if kind == "ex":
                L += [f"{ind}    {xl}" for xl in x.split("\n")]
            elif kind == "ret":
                L.append(f"{ind}    {t}: {x}")
            else:
                L.append(f"{ind}    {n} ({t}): {x}")
    else:  # REST
        for n, t, x in entries:
            if kind == "param":
                L.append(f"{ind}:param {n}: {x}")
            elif kind == "ret":
                L.append(f"{ind}:returns: {x}")
            elif kind == "attr":
                L.append(f"{ind}:ivar {n}: {x}")
    L.append("")
    return L


def doc(style, desc, ind, params=(), attrs=(), ret=None, ex=None, tail=None) -> str:
    L = [f'{ind}"""{desc[0]}'] + [f"{ind}{d}" for d in desc[1:]] + [""]
    if style == "PLAINTEXT":
        for n, t, x in [*params, *attrs]:
            L.append(f"{ind}{n}: {x}")
        if ret:
            L.append(f"{ind}returns {ret}")
        if ex:
            L.append(f"{ind}{ex}")
    else:
        L += section(style, "param", params, ind)
        L += section(style, "attr", attrs, ind)
        L += section(style, "ret", [("", "int", ret)] if ret else [], ind)
        L += section(style, "ex", [("", "", ex)] if ex and style != "REST" else [], ind)
    if tail and style == "GOOGLE":      # free text after the sections (the other styles read it as part of the last section)
        L += ["", f"{ind}{tail}"]
    while L and L[-1] == "":
        L.pop()
    L.append(f'{ind}"""')
    return "\n".join(L)


def desc_lines(o):
    return [f"tok_{und(o)}_desc first line.", f"Second line of {und(o)}."]


def fun_src(style, owner, name, ind="", recv="", example=False, pname="p") -> str:
    u = und(owner)
    d = doc(style, desc_lines(owner), ind + "    ", params=[(pname, "int", f"tok_{u}_p_{pname} is a parameter.")], ret=f"tok_{u}_res is the result.",
            ex=f'>>> tok_{u}_ex(">>> 1",\n...        [...])' if example else None, tail="Closing remark after the sections." if owner == "fb" else None)
    args = ", ".join(x for x in (recv, f"{pname}: int") if x)
    # a string statement further down in the body is no docstring
    return f"{ind}def {name}({args}) -> int:\n{d}\n{ind}    q = 1\n{ind}    \"\"\"String statement in the body of {name}.\"\"\"\n{ind}    return q\n"


def elem_src(style, e) -> str:
    if e in ("fa", "fb"):
        return fun_src(style, e, e, example=(e == "fa")) + "\n"
    if e == "CA":
        d = doc(style, desc_lines("CA"), "    ", params=[("x", "int", "tok_CA_p_x is a parameter.")], attrs=[("at", "int", "tok_CA_at_at is an attribute.")])
        # the string after the attribute is the attribute's docstring by convention, not the class's
        return (f"class CA:\n{d}\n\n    at: int = 1\n    \"\"\"String statement after the attribute at.\"\"\"\n\n    def __init__(self, x: int):\n        ...\n\n"
                + fun_src(style, "CA.meth", "meth", "    ", "self") + "\n"
                # a method whose name merely ends in __init__, with a parameter named like the constructor's
                + fun_src(style, "CA.re__init__", "re__init__", "    ", "self", pname="x") + "\n")
    if e == "fc":
        if style == "NUMPYDOC":
            ind = "    "
            L = [f'{ind}"""{desc_lines("fc")[0]}', f"{ind}{desc_lines('fc')[1]}", "", f"{ind}Parameters", f"{ind}----------", f"{ind}p : int", f"{ind}    tok_fc_p_p is a parameter.", "",
                 f"{ind}Returns", f"{ind}-------", f"{ind}count : int", f"{ind}    tok_fc_ra is named.", f"{ind}str", f"{ind}    tok_fc_rb is unnamed.",
                 f"{ind}float", f"{ind}    tok_fc_rc is unnamed too.", f'{ind}"""']
            d = "\n".join(L)
        else:
            d = doc(style, desc_lines("fc"), "    ", params=[("p", "int", "tok_fc_p_p is a parameter.")])
        return f"def fc(p: int) -> tuple[int, str, float]:\n{d}\n    ...\n\n"
    if e == "CD":
        d = doc(style, ["Create it."], "        ", params=[("z", "int", "tok_CD_p_z is a parameter.")])
        return f"class CD:\n    def __init__(self, z: int):\n{d}\n        self.zz: int = z\n\n"
    if e == "CC":
        return "class CC:\n    at: int = 3\n\n    def plainmeth(self, p: int) -> int:\n        ...\n\n"
    # CB documents an attribute `at`; its nested class In documents an attribute of the same name
    d = doc(style, desc_lines("CB"), "    ", attrs=[("at", "int", "tok_CB_at_at is an attribute.")])
    din = doc(style, ["tok_CB_In_desc first line."], "        ", attrs=[("at", "int", "tok_CB_In_at_at is an attribute.")])
    return (f"class CB:\n{d}\n\n    at: int = 1\n\n    class In:\n{din}\n\n        at: int = 2\n\n"
            + fun_src(style, "CB.meth", "meth", "    ", "self") + "\n")


DECODE = {}
for o in ("fa", "fb", "CA.meth", "CB.meth"):
    DECODE[f"tok_{und(o)}_desc"] = (o, "desc")
    DECODE[f"tok_{und(o)}_p_p"] = (o, "p_p")
    DECODE[f"tok_{und(o)}_res"] = (o, "res")
DECODE.update({"tok_fc_desc": ("fc", "desc"), "tok_fc_p_p": ("fc", "p_p"), "tok_fc_ra": ("fc", "ra"), "tok_fc_rb": ("fc", "rb"), "tok_fc_rc": ("fc", "rc")})
DECODE["tok_CD_p_z"] = ("CD", "p_z")
DECODE.update({"tok_CA_re__init___desc": ("CA.re__init__", "desc"), "tok_CA_re__init___p_x": ("CA.re__init__", "p_x"), "tok_CA_re__init___res": ("CA.re__init__", "res")})
DECODE.update({"tok_CB_at_at": ("CB.at", "at"), "tok_CB_In_desc": ("CB.In", "desc"), "tok_CB_In_at_at": ("CB.In.at", "at")})
DECODE.update({"tok_fa_ex": ("fa", "ex"), "tok_CA_desc": ("CA", "desc"), "tok_CB_desc": ("CB", "desc"), "tok_CA_p_x": ("CA", "p_x"), "tok_CA_at_at": ("CA.at", "at")})


def comment_facts(decl_path: str, d) -> tuple[list, list, str]:
    """tokens with their tag, description lines, normalised comment text"""
    lines = sds.doc_lines(d.doc)
    found, desc, tag, tagname, in_desc = [], [], "desc", "", True
    excode = []
    sigres = [r["name"] for r in (d.results or [])]
    for ln in lines:
        s = ln.strip()
        if s.startswith("@param"):
            parts = s.split(None, 2)
            tag, tagname, in_desc = "param", parts[1] if len(parts) > 1 else "", False
        elif s.startswith("@result"):
            parts = s.split(None, 2)
            tag, tagname, in_desc = "result", parts[1] if len(parts) > 1 else "", False
        elif s.startswith("@example"):
            tag, tagname, in_desc = "example", "", False
        elif s == "" and in_desc and desc:
            in_desc = False
        elif in_desc:
            desc.append(s)
        if tag == "example" and s.startswith("//"):
            excode.append(s)
        for t in TOK.findall(s):
            if t in DECODE:
                o, it = DECODE[t]
                found.append({"owner": o, "item": it, "decl": decl_path, "tag": tag, "tagname": tagname, "sigres": sigres})
            else:
                found.append({"owner": "?" + t, "item": "?", "decl": decl_path, "tag": tag, "tagname": tagname, "sigres": sigres})
    return found, desc, "\n".join(lines), excode


def replay_package(style) -> str:
    ind = "    "
    ca = doc(style, ["tok_CA_desc."], ind, params=[("x", "int", "tok_CA___init___x.")], attrs=[("at", "int", "tok_CA_at.")])
    cb = doc(style, ["tok_CB_desc."], ind)
    cbi = doc(style, ["tok_CB___init___desc."], ind * 2, params=[("x", "int", "tok_CB___init___x.")], attrs=[("at", "int", "tok_CB_at.")])

    def f(owner, name, i, recv=""):
        u = und(owner)
        d = doc(style, [f"tok_{u}_desc."], i + "    ", params=[("p", "int", f"tok_{u}_p.")], ret=f"tok_{u}_res.")
        return f"{i}def {name}({', '.join(x for x in (recv, 'p: int') if x)}) -> int:\n{d}\n{i}    ...\n\n"
    return (f"class CA:\n{ca}\n\n    at: int = 1\n\n    def __init__(self, x: int):\n        ...\n\n" + f("CA.meth", "meth", ind, "self")
            + f"class CB:\n{cb}\n\n    def __init__(self, x: int):\n{cbi}\n        self.at: int = x\n\n" + f("CB.meth", "meth", ind, "self")
            + "class CC(CA):\n    at: int = 2\n\n" + f("fa", "fa", "") + f("fb", "fb", ""))


def main(v: Verdict) -> None:
    # ---- (i) lookup sequences replayed on the real parser
    seqs = generate(v, "DocCache", "C13_MC.cfg" if TIER == "quick" else "C13_MC_thorough.cfg", min_records=1000, timeout=1500)
    if not seqs:
        return
    import safeds_stubgen.api_analyzer  # noqa: F401  (must precede docstring_parsing: circular import otherwise)
    from griffe.enumerations import Parser
    from safeds_stubgen.docstring_parsing._docstring_parser import DocstringParser
    obs = []
    for style, gp in (("NUMPYDOC", Parser.numpy), ("GOOGLE", Parser.google), ("REST", Parser.sphinx)):
        root = write_pkg({"__init__.py": "", "docmod.py": replay_package(style)}, "dcpk" + style.lower()[:3])
        pk, q = root.name, f"{root.name}.docmod."
        parser = DocstringParser(parser=gp, package_path=root)
        use = seqs if style == "NUMPYDOC" or TIER == "thorough" else seqs[::7]
        for k, seq in enumerate(use):
            steps = []
            for l in seq:
                kind, owner, name = l["kind"], l["owner"], l["name"]
                try:
                    if kind == "cls":
                        text = parser.get_class_documentation(SimpleNamespace(fullname=q + owner)).description
                    elif kind == "fun":
                        text = parser.get_function_documentation(SimpleNamespace(fullname=q + owner)).description
                    elif kind == "par":
                        parent = f"{pk}/docmod/{owner.split('.')[0]}" if "." in owner else ""
                        text = parser.get_parameter_documentation(q + owner, name, parent).description
                    elif kind == "attr":
                        text = parser.get_attribute_documentation(f"{pk}/docmod/{owner}", name).description
                    else:
                        text = " ".join(r.description for r in parser.get_result_documentation(q + owner))
                except Exception as e:  # noqa: BLE001
                    text = f"tok_EXCEPTION_{type(e).__name__}"
                steps.append({"l": l, "toks": TOK.findall(text)})
            obs.append({"id": f"replay:{style}:{k}", "kind": "replay", "obs": {"style": style, "steps": steps}})
    n_replay = len(obs)
    # ---- (ii) end to end: every order of four documented elements, four styles
    orders = generate(v, "DocAttach", "C13b_MC.cfg", min_records=1500)
    jobs, meta = [], []
    for style in ["PLAINTEXT", *STYLES]:
        files = {"__init__.py": ""}
        for k, order in enumerate(orders):
            # the module has no docstring: the string after the first assignment is not one
            files[f"perm{k:02d}.py"] = "XMOD = 1\n\"\"\"String statement after XMOD.\"\"\"\n\n\n" + "\n".join(elem_src(style, e) for e in order)
        # declarations of the package file that are called like submodules
        files["__init__.py"] = ('"""tok_pkg_desc first line."""\n\n\ndef helper(a: int) -> int:\n    """tok_pkgfn_desc first line."""\n    ...\n\n\n'
                                'class widget:\n    """tok_pkgcls_desc first line."""\n\n    def wm(self) -> int:\n        ...\n')
        files["helper.py"] = '"""tok_submodh_desc first line."""\n\n\ndef run_h(a: int) -> int:\n    ...\n'
        files["widget.py"] = '"""tok_submodw_desc first line."""\n\n\ndef run_w(a: int) -> int:\n    ...\n'
        d = write_pkg(files, "dapk" + style.lower()[:3])
        jobs.append({"src": d, "opts": Opts(docstyle=style), "timeout": 600, "trace_cache": True})
        meta.append((style, d.name))
    runs = run_many(jobs)
    per_style = {}
    for (style, root), r in zip(meta, runs):
        if r.exit != "ok":      # a style that cannot be observed at all must not pass silently
            v.machinery(f"run with style {style} failed: {r.exit} {r.exc} {r.frame} {r.msg}")
            continue
        if r.cache:      # the real cache's lookups during this analysis, in the order the analyser made them
            for c in range(0, len(r.cache), 4000):
                obs.append({"id": f"cache:{style}:{c}", "kind": "cache", "obs": {"events": r.cache[c:c + 4000]}})
        stubs = Stubs(r)
        pkgdocs = []
        for rel, f in stubs.files.items():
            mod = (f.pymodule or f.package).split(".")[-1]
            if not mod.startswith("perm"):
                if mod in ("helper", "widget"):
                    pkgdocs.append({"decl": f"@module:{mod}", "text": [x.strip() for x in sds.doc_lines(f.doc)] if f.doc else []})
                else:
                    pkgdocs += [{"decl": d.pyname, "text": [x.strip() for x in sds.doc_lines(d.doc)] if d.doc else []} for d in f.members if d.pyname in ("helper", "widget")]
                continue
            found, lines, texts = [], [], {}
            for owners, d in f.walk():
                path = ".".join([o.pyname for o in owners] + [d.pyname])
                fnd, desc, text, excode = comment_facts(path, d)
                found += fnd
                texts[path] = text
                if path in ("fa", "fb", "fc", "CA", "CB", "CA.meth", "CB.meth", "CA.re__init__"):
                    lines.append({"decl": path, "text": desc, "excode": excode})
            obs.append({"id": f"module:{style}:{mod}", "kind": "module", "obs": {"style": style, "found": found, "lines": lines, "moddoc": sds.doc_lines(f.doc) if f.doc else []}})
            per_style.setdefault(mod, {})[style] = texts
        have = {d["decl"] for d in pkgdocs}
        pkgdocs += [{"decl": x, "text": ["@missing"]} for x in ("helper", "widget", "@module:helper", "@module:widget") if x not in have]
        obs.append({"id": f"pkgfile:{style}", "kind": "pkgfile", "obs": {"style": style, "docs": pkgdocs}})
    # style equivalence for constructs common to the three structured styles (functions and methods; class CB)
    for mod, by in sorted(per_style.items()):
        for a, b in (("NUMPYDOC", "GOOGLE"), ("NUMPYDOC", "REST")):
            if a in by and b in by:
                for decl in ("fb", "CA.meth", "CB.meth", "CB", "CD"):
                    obs.append({"id": f"style:{mod}:{decl}:{a}-{b}", "kind": "style",
                                "obs": {"decl": decl, "kind": "function" if "." in decl or decl == "fb" else "class", "sa": a, "sb": b,
                                        "a": by[a].get(decl, "@missing"), "b": by[b].get(decl, "@missing")}})
    bad = judge(v, "C13_Trace", obs, chunk=20000)
    v.add_bad(bad)
    v.samples = [obs[0], obs[n_replay] if len(obs) > n_replay else obs[-1]]
    v.extra["lookup_sequences_replayed"] = n_replay
    v.extra["modules_judged"] = sum(1 for o in obs if o["kind"] == "module")
    v.extra["style_pairs_judged"] = sum(1 for o in obs if o["kind"] == "style")
    v.extra["real_cache_lookups_validated"] = sum(len(o["obs"]["events"]) for o in obs if o["kind"] == "cache")
    v.assumptions += ["every documented item carries a unique token; tokens found in an answer or comment are extracted by the harness",
                      "style equivalence is judged on one-line parameter/result descriptions and two-line summaries only"]
