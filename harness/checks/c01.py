"""C01 - every analysable package is processed to completion under every option set (spec/Pipeline.tla)."""
from __future__ import annotations

from common import TIER, Verdict
from flow import generate, judge
from pygen import write_pkg
from runner import Opts, all_opts, run_many
import features

PKG = "pipepk"


def feature_files(feat, sub, pkg) -> dict:
    out = {}
    files = features.module_source(feat, pkg)
    if "__init__.py" not in files:
        out[f"{sub}/__init__.py"] = ""
    for rel, text in files.items():
        out[f"{sub}/{rel.replace('{sub}', sub)}"] = text.replace("{pkg}", pkg).replace("{sub}", sub)
    return out


def build(feats, pkg=PKG):
    files = {"__init__.py": "", "helpers.py": features.HELPERS}
    for idx, f in feats:
        files.update(feature_files(f, f"f{idx:03d}", pkg))
    return write_pkg(files, pkg)


def obs_of(r, feat, expect_empty=False):
    # packages of other checks may have nothing public to emit (private-only scenarios): an API file is all that is demanded of them
    return {"needStubs": not (feat and feat[0] == "sweep"), "exit": r.exit, "exc": r.exc or "-", "frame": r.frame or "-", "msg": (r.msg or "-")[:200], "feature": feat, "opts": r.opts.key(),
            "hasApi": r.api() is not None, "nStubs": len(r.stubs), "expectEmpty": expect_empty}


def sweep_jobs(v: Verdict):
    """Collect (without running) the packages other checks would run; quick: the function-level packs, thorough: all."""
    import importlib
    import runner
    from common import Verdict as V
    names = ["C06", "C05", "C07", "C20"] if TIER == "quick" else ["C06", "C05", "C07", "C20", "C12", "C17", "C03", "C11", "C14", "C13", "C02", "C15", "C18"]
    out = []
    for n in names:
        runner.DRY_RUN = []
        try:
            dummy = V(n)
            importlib.import_module(f"checks.{n.lower()}").main(dummy)
            for t in dummy.tlc_runs:
                v.tlc_runs.append(t)
        except Exception as e:  # noqa: BLE001
            v.extra.setdefault("sweep_errors", []).append(f"{n}: {type(e).__name__}: {e}")
        seen = set()
        for j in runner.DRY_RUN or []:
            key = (str(j["src"]), j["opts"].key())
            if key not in seen:
                seen.add(key)
                out.append((n, j))
        runner.DRY_RUN = None
    sweep_jobs.cache = out
    return out


sweep_jobs.cache = []


def main(v: Verdict) -> None:
    recs = generate(v, "Pipeline", "C01_MC.cfg", min_records=50, timeout=900)
    if not recs:
        return
    feats = [(k, r["f"]) for k, r in enumerate(sorted((r for r in recs), key=lambda r: r["f"]))]
    obs = []
    # phase 1: every declaration form alone, default options
    # docstring forms are run under the style they are written in (and all forms once under the default options)
    def style_of(f):
        if f[0] != "doc":
            return "PLAINTEXT"
        return "GOOGLE" if "google" in f[1].lower() else "REST" if "rest" in f[1].lower() else "PLAINTEXT" if f[1] == "PLAINTEXT" else "NUMPYDOC"
    singles = run_many([{"src": build([(k, f)], f"onepk{k:03d}"), "opts": Opts(docstyle=style_of(f)), "timeout": 90} for k, f in feats])
    crashing = set()
    for (k, f), r in zip(feats, singles):
        obs.append({"id": f"single:{f[0]}:{f[1]}", "obs": obs_of(r, f)})
        if r.exit not in ("ok", "notloadable"):
            crashing.add(k)
    # phase 2: all forms that work alone together in one package, under all 64 option sets
    good = [(k, f) for k, f in feats if k not in crashing]
    pack = build(good)
    opts = all_opts()
    pack_runs = run_many([{"src": pack, "opts": o, "timeout": 600} for o in opts])
    bisect = []
    for o, r in zip(opts, pack_runs):
        obs.append({"id": f"pack:{o.key()}", "obs": obs_of(r, [])})
        if r.exit not in ("ok", "notloadable"):
            bisect.append(o)
    # phase 3: a pack that fails under some option set is bisected under that option set
    for o in bisect[: (4 if TIER == "quick" else 64)]:
        rs = run_many([{"src": build([(k, f)], f"bispk{k:03d}"), "opts": o, "timeout": 300} for k, f in good])
        for (k, f), r in zip(good, rs):
            if r.exit not in ("ok", "notloadable"):
                obs.append({"id": f"bisect:{o.key()}:{f[0]}:{f[1]}", "obs": obs_of(r, f)})
    # the documented rejection: nothing to analyse
    empties = {"only-init": {"__init__.py": ""}, "only-tests-dir": {"__init__.py": "", "tests/__init__.py": "", "tests/test_x.py": "def t() -> int:\n    ...\n"}}
    er = run_many([{"src": write_pkg(fs, "emptpk" + n[:4].replace("-", "")), "opts": Opts(), "timeout": 120} for n, fs in empties.items()])
    for (n, _), r in zip(empties.items(), er):
        obs.append({"id": f"empty:{n}", "obs": obs_of(r, ["empty", n], expect_empty=True)})
    # the other checks stay silent about crashes (DESIGN 6.2): run their packages once and report crashes here
    for name, job in sweep_jobs(v):
        pass
    sw = sweep_jobs.cache
    if sw:
        rs = run_many([{"src": j["src"], "opts": j["opts"], "timeout": 900 if TIER == "quick" else 3600} for _, j in sw])
        for (name, j), r in zip(sw, rs):
            obs.append({"id": f"sweep:{name}:{j['src'].name}:{j['opts'].key()}", "obs": obs_of(r, ["sweep", name])})
    v.extra["swept_packages"] = len(sw)
    bad = judge(v, "C01_Trace", obs)
    by_id = {o["id"]: o for o in obs}
    for b in bad:
        o = by_id.get(b.get("subject"))
        if o and o["obs"]["feature"] and o["obs"]["feature"][0] not in ("empty", "sweep"):
            b["python"] = features.module_source(o["obs"]["feature"], PKG)
    v.add_bad(bad)
    v.samples = [obs[0], obs[len(feats)]]
    v.extra["features"] = len(feats)
    v.extra["runs"] = len(obs)
    v.extra["option_sets"] = len(opts)
    v.extra["features_crashing_alone"] = len(crashing)
    v.assumptions += ["an exception counts only if it is raised below safeds_stubgen.main.main(); a mypy CompileError means 'not loadable'",
                      "all declaration forms share one package in the 64-option sweep (all pairs at package level); forms are bisected one per package"]
