"""Common driver of the checks that use topology universe U1 (C03, C04): pack, run, judge, re-run failures in isolation."""
from __future__ import annotations

from common import TIER, Verdict
from facts import Stubs, api_index
from flow import generate, judge
from runner import Opts, run_many
import topo


def run_topology(v: Verdict, props: tuple[str, ...]) -> None:
    scs = generate(v, "Package", "Topo_MC.cfg" if TIER == "quick" else "Topo_MC_thorough.cfg", min_records=200)
    if not scs:
        return
    for k, sc in enumerate(scs):
        sc["id"] = k + 1
    packs = topo.build_packs(scs)
    runs = topo.run_packs(packs)
    obs = []
    for (d, chunk), r in zip(packs, runs):
        if r.exit != "ok" or r.api() is None:
            # a crashing pack is C01's business; bisect here only to keep the other scenarios observable
            v.extra.setdefault("unobservable_packs", []).append({"pack": d.name, "exit": r.exit, "exc": r.exc, "frame": r.frame})
            for sc in chunk:
                p1 = topo.build_single(sc)
                r1 = run_many([{"src": p1, "opts": Opts(), "timeout": 300}])[0]
                if r1.exit == "ok" and r1.api() is not None:
                    obs.append(_obs(sc, r1, p1.name, isolated=True))
                else:
                    v.extra.setdefault("unobservable", []).append({"scenario": _plain(sc), "exit": r1.exit, "exc": r1.exc, "frame": r1.frame})
            continue
        stubs, idx = Stubs(r), api_index(r.api())
        for sc in chunk:
            obs.append({"id": sc["id"], "sc": _plain(sc), "obs": topo.observe(sc, stubs, idx, d.name), "_src": str(d)})
    if len(obs) < len(scs) // 2:
        v.machinery(f"only {len(obs)} of {len(scs)} scenarios observable")
    bad = [b for b in judge(v, "Topo_Trace", obs) if b.get("property") in props]
    # isolation (DESIGN 6.4): a violation seen in a pack is reported only if it reproduces when the scenario is alone
    by_id = {sc["id"]: sc for sc in scs}
    failing = sorted({b["subject"] for b in bad})
    if failing:
        singles = [(by_id[i], topo.build_single(by_id[i])) for i in failing]
        rs = run_many([{"src": p, "opts": Opts(), "timeout": 300} for _, p in singles])
        iso_obs = [_obs(sc, r, p.name, isolated=True) for (sc, p), r in zip(singles, rs) if r.exit == "ok" and r.api() is not None]
        iso_bad = [b for b in judge(v, "Topo_Trace", iso_obs) if b.get("property") in props] if iso_obs else []
        keep = {(b["subject"], b["property"], b["clause"], b["sig"]) for b in iso_bad}
        pack_only = [b for b in bad if (b["subject"], b["property"], b["clause"], b["sig"]) not in keep]
        if pack_only:
            v.extra["pack_only_differences"] = [{k: b[k] for k in ("subject", "property", "clause", "sig")} for b in pack_only[:20]]
        bad = iso_bad
        src = {sc["id"]: str(p) for sc, p in singles}
        for b in bad:
            b["scenario"] = _plain(by_id[b["subject"]])
            b["_replay_src"] = src.get(b["subject"])
    v.add_bad(bad)
    v.samples = [{"scenario": o["sc"], "observed": o["obs"]} for o in obs[:: max(1, len(obs) // 3)]][:3]
    v.extra["scenarios_generated"] = len(scs)
    v.extra["scenarios_replayed"] = len(obs)
    v.extra["packs"] = len(packs)
    v.assumptions += ["scenarios are packed as sibling sub-packages with unique name suffixes; failures are re-run in isolation before they are reported",
                      "stub parser harness/sds.py is hand-written", "mypy 1.20.2"]


def _plain2(sc):
    return {"kind": sc["kind"], "exports": sc["exports"], "variant": sc.get("variant", "distinct")}


def _plain(sc):
    return {k: sc[k] for k in ("kind", "dname", "stem", "place", "reexp")}


def _obs(sc, r, rootname, isolated=False):
    return {"id": sc["id"], "sc": _plain(sc), "obs": topo.observe(sc, Stubs(r), api_index(r.api()), rootname)}


def run_topology2(v: Verdict, props=("C03",)) -> None:
    """Universe U2 (spec/Package2.tla): two declarations with interacting re-exports; judged for C03 (and C04: same-name / suffix variants)."""
    from pygen import write_pkg
    scs = generate(v, "Package2", "Topo2_MC.cfg", min_records=50)
    if not scs:
        return
    for k, sc in enumerate(scs):
        sc["id"] = 5000 + k
    packs = []
    for c in range(0, len(scs), 30):
        root = f"toptwo{c // 30:02d}"
        files = {"__init__.py": ""}
        for sc in scs[c:c + 30]:
            files.update(topo.u2_files(sc, root))
        packs.append((write_pkg(files, root), scs[c:c + 30]))
    runs = topo.run_packs(packs)
    obs = []
    for (d, chunk), r in zip(packs, runs):
        if r.exit != "ok":
            v.extra.setdefault("unobservable_packs", []).append({"pack": d.name, "exit": r.exit, "exc": r.exc, "frame": r.frame})
            continue
        stubs = Stubs(r)
        for sc in chunk:
            obs.append({"id": sc["id"], "sc": _plain2(sc), "obs": topo.u2_observe(sc, stubs, d.name, api_index(r.api() or {}))})
    if not obs:
        return
    bad = [b for b in judge(v, "Topo2_Trace", obs) if b.get("property") in props]
    by_id = {o["id"]: o for o in obs}
    failing = sorted({b["subject"] for b in bad})
    if failing:      # isolation re-run (DESIGN 6.4)
        singles = []
        for i in failing:
            sc = dict(by_id[i]["sc"], id=i)
            root = f"toptis{i}"
            files = {"__init__.py": ""}
            files.update(topo.u2_files(sc, root))
            singles.append((sc, write_pkg(files, root)))
        rs = run_many([{"src": p, "opts": Opts(), "timeout": 300} for _, p in singles])
        iso = [{"id": sc["id"], "sc": _plain2(sc), "obs": topo.u2_observe(sc, Stubs(r), p.name, api_index(r.api() or {}))}
               for (sc, p), r in zip(singles, rs) if r.exit == "ok"]
        bad = [b for b in judge(v, "Topo2_Trace", iso) if b.get("property") in props] if iso else []
        src = {sc["id"]: str(p) for sc, p in singles}
        for b in bad:
            b["scenario"] = by_id[b["subject"]]["sc"]
            b["_replay_src"] = src.get(b["subject"])
    v.add_bad(bad)
    v.extra["u2_scenarios"] = len(obs)
