"""C12 - the API JSON is a complete, internally consistent inventory (spec/Walker.tla)."""
from __future__ import annotations

import json

from common import TIER, Verdict
from flow import generate, judge
from pygen import write_pkg
from runner import Opts, run_many

PKG = "walkpk"
ANYNAME = {"dpart", "dpart2"}
BASE = "from typing import Generic, TypeVar\n\nTB = TypeVar(\"TB\")\n\n\nclass BaseA:\n    pass\n\n\nclass BaseB:\n    pass\n\n\nclass GenBase(Generic[TB]):\n    pass\n"


def node_src(n, ind="") -> list[str]:
    k, name, flags = n["k"], n["name"], set(n["flags"])
    L = []
    if k == "class":
        sup = next((f[6:] for f in flags if f.startswith("super-")), "none")
        if "redefined" in flags:      # an earlier definition of the class with other members: the later one wins
            L += [f"{ind}class {name}:", f"{ind}    zattr: int = 1", "", f"{ind}    def zmeth(self):", f"{ind}        ...", ""]
        bases = {"none": "", "one": "(BaseA)", "two": "(BaseA, BaseB)", "aliased": "(AliasA)", "subscripted": "(GenBase[int])", "subscripted-aliased": "(GenAlias[int])", "userenum": "(BaseKind)"}[sup]
        L.append(f"{ind}class {name}{bases}:")
        body = []
        for c in n["ch"]:
            body += node_src(c, ind + "    ")
        L += body or [f"{ind}    pass"]
        L.append("")
    elif k == "func":
        params = [c["name"] for c in n["ch"] if c["k"] == "param"]
        dflt = {c["name"]: next((f[8:] for f in c["flags"] if f.startswith("default:")), None) for c in n["ch"] if c["k"] == "param"}
        has_res = any(c["k"] == "result" for c in n["ch"])
        ps = ", ".join(p if p in ("self", "cls") else (f"{p}={dflt[p]}" if dflt.get(p) else f"{p}: int") for p in params)
        deco = {"static": "@staticmethod", "classmethod": "@classmethod", "property": "@property"}
        if "overload" in flags:
            ps1 = ps.replace("a: int", "a: str")
            extra = [f"{ind}{deco[f]}" for f in ("static", "classmethod") if f in flags]
            L += [f"{ind}@overload", *extra, f"{ind}def {name}({ps}) -> int: ...", "", f"{ind}@overload", *extra, f"{ind}def {name}({ps1}) -> int: ...", ""]
            ps = ps.replace("a: int", "a")
            if "deco" in flags:
                L.append(f"{ind}@functools.lru_cache")
        if "redefined" in flags:      # an earlier definition of the same name: the later one wins
            L += [f"{ind}{deco[f]}" for f in ("static", "classmethod", "property") if f in flags]
            L += [f"{ind}def {name}({'self, ' if 'self' in params else ''}zold: int = 0):", f"{ind}    ...", ""]
        for f in ("static", "classmethod", "property"):
            if f in flags:
                L.append(f"{ind}{deco[f]}")
        if flags & {"docpartial", "docmore"}:      # two results, the NumPy docstring names one or three
            docs = ["quotient : int"] if "docpartial" in flags else ["qa : int", "qb : int", "qc : str"]
            L.append(f"{ind}def {name}({ps}) -> tuple[int, int]:")
            L += [f'{ind}    """Split.', "", f"{ind}    Returns", f"{ind}    -------"] + [x for d in docs for x in (f"{ind}    {d}", f"{ind}        Text.")] + [f'{ind}    """']
        else:
            L.append(f"{ind}def {name}({ps})" + (" -> int:" if has_res else ":"))
        attrs = [c for c in n["ch"] if c["k"] == "attr"]
        if attrs:
            for a in attrs:
                if "deep" in a["flags"]:      # the second target assigns into the attribute, it defines none
                    L.append(f"{ind}    self.{a['name']} = self.{a['name']}.sub = 1")
                else:
                    L.append(f"{ind}    self.{a['name']}: int = 1")
        else:
            L.append(f"{ind}    ...")
        L.append("")
        if "setter" in flags:
            L += [f"{ind}@{name}.setter", f"{ind}def {name}(self, value: int) -> None:", f"{ind}    ...", ""]
    elif k == "enum":
        base = next((f[5:] for f in flags if f.startswith("base-")), "Enum")
        if "redefined" in flags:      # an earlier definition of the enum with another member: the later one wins
            L += [f"{ind}class {name}({base}):", f"{ind}    ZZ = 9", ""]
        L.append(f"{ind}class {name}({base}):")
        val = (lambda j: f'"v{j}"') if base == "StrEnum" else (lambda j: str(2 ** j))
        L += [f"{ind}    {c['name']} = {val(j)}" for j, c in enumerate(n["ch"])] or [f"{ind}    pass"]
        L.append("")
    elif k == "attr":
        L.append(f"{ind}{name} = {name} = 1" if "chained" in flags else f"{ind}{name}: int = 1")
    return L


def module_src(m) -> str:
    L = ["from enum import Enum, Flag, IntEnum, IntFlag, StrEnum", "import functools", "from typing import overload", f"from {PKG}.basemod import BaseA, BaseB, GenBase", f"from {PKG}.basemod import BaseA as AliasA", ""]
    if any("super-subscripted-aliased" in c["flags"] for c in m["ch"]):      # another class called GenBase is imported first, the generic one under an alias
        L = L[:3] + [f"from {PKG}.basemod2 import GenBase", f"from {PKG}.basemod import BaseA, BaseB", f"from {PKG}.basemod import GenBase as GenAlias", f"from {PKG}.basemod import BaseA as AliasA", ""]
    for c in m["ch"]:
        L += node_src(c)
    return "\n".join(L) + "\n"


def observe(api: dict, mid: str, text_valid: bool, pk: str = PKG) -> dict:
    pre = mid + "/"
    entries = []
    dups = []
    twice = []      # ids that one owner lists more than once

    def own(x):      # the filler module of a package-file scenario is not part of it
        return (x == mid or x.startswith(pre)) and not (x + "/").startswith(pre + "fillmod/")
    seen = set()
    rename = {}      # results of the ANYNAME functions are projected onto their positions in the owner's list
    for key, kind in (("classes", "class"), ("functions", "func"), ("enums", "enum"), ("attributes", "attr"), ("enum_instances", "inst"),
                      ("parameters", "param"), ("results", "result")):
        for e in api.get(key, []):
            if not own(e["id"]):
                continue
            if (kind, e["id"]) in seen:
                dups.append(e["id"])
            seen.add((kind, e["id"]))
            refs, flags, supers = [], [], []
            if kind == "class":
                refs = e["attributes"] + e["methods"] + e["classes"] + ([e["constructor"]["id"]] if e.get("constructor") else [])
                supers = [s[len(pk) + 1:] if s.startswith(pk + ".") else s for s in e["superclasses"]]
            elif kind == "func":
                res = e["results"]
                twice += sorted({r for r in res if res.count(r) > 1})
                if e["name"] in ANYNAME:
                    for j, r in reversed(list(enumerate(res))):
                        rename[r] = (f"{e['id']}/?{j + 1}", f"?{j + 1}")
                    res = [f"{e['id']}/?{j + 1}" for j in range(len(res))]
                refs = e["parameters"] + res
                flags = [f for f, k2 in (("static", "is_static"), ("classmethod", "is_class_method"), ("property", "is_property")) if e.get(k2)]
            elif kind == "enum":
                refs = e["instances"]
            elif kind == "attr":
                flags = ["static"] if e.get("is_static") else []
            dv = json.dumps(e.get("default_value")) if kind == "param" else ""
            twice += sorted({r for r in refs if refs.count(r) > 1})
            eid, ename = rename.get(e["id"], (e["id"], e["name"])) if kind == "result" else (e["id"], e["name"])
            entries.append({"kind": kind, "id": eid, "name": ename, "refs": refs, "flags": flags, "supers": supers, "dflt": dv})
    mod = next((m for m in api.get("modules", []) if m["id"] == mid), None)
    modrefs = (mod["classes"] + mod["functions"] + mod["enums"]) if mod else []
    twice += sorted({r for r in modrefs if modrefs.count(r) > 1})
    return {"mid": mid, "entries": entries, "modrefs": modrefs, "dups": dups, "twice": twice, "valid": text_valid and mod is not None}


def main(v: Verdict) -> None:
    mods = generate(v, "Walker", "C12_MC.cfg" if TIER == "quick" else "C12_MC_thorough.cfg", min_records=200)
    if not mods:
        return
    # the modules are spread over packages of at most CHUNK modules that are analysed side by side (the tool's run time grows faster
    # than linearly with the number of modules of one package)
    CHUNK = 1200
    for k, m in enumerate(mods):
        m["id"] = k + 1
        m["file"] = f"wm{k + 1:04d}" + ("__init__" if "initlike-filename" in m["flags"] else "")
        m["pkg"] = f"{PKG}doc" if "numpydoc" in m["flags"] else f"{PKG}{k // CHUNK:02d}"
    jobs, pkgs = [], sorted({m["pkg"] for m in mods})
    for pk in pkgs:
        files = {"__init__.py": "", "basemod.py": BASE, "basemod2.py": "class GenBase:\n    pass\n\n\ndef make_gen() -> GenBase:\n    return GenBase()\n"}
        for m in mods:
            if m["pkg"] != pk:
                continue
            src = module_src(m).replace(f"{PKG}.basemod", f"{pk}.basemod")      # (basemod2 as well)
            if "initlike-filename" in m["flags"]:
                files[f"{m['file']}.py"] = src
            elif "pkgfile" in m["flags"]:      # the declarations live in the package file itself
                files[f"{m['file']}/__init__.py"] = src
                files[f"{m['file']}/fillmod.py"] = "def fill() -> int:\n    ...\n"
            else:
                files[f"{m['file']}.py"] = src
        jobs.append({"src": write_pkg(files, pk), "opts": Opts(docstyle="NUMPYDOC") if pk.endswith("doc") else Opts(), "timeout": 1500, "trace_walk": True})
    runs = dict(zip(pkgs, run_many(jobs)))
    obs, n_walk = [], 0
    for pk in pkgs:
        r = runs[pk]
        if r.exit != "ok":
            v.machinery(f"run of {pk} failed: {r.exit} {r.exc} {r.frame} {r.msg}")
            return
        text = next((t for p, t in r.files.items() if p.endswith("__api.json")), None)
        try:
            api = json.loads(text)
            valid = True
        except (TypeError, ValueError):
            api, valid = {}, False
        lists_sorted = all([e["id"] for e in api.get(k, [])] == sorted(e["id"] for e in api.get(k, []))
                           for k in ("modules", "classes", "functions", "results", "enums", "enum_instances", "attributes", "parameters"))
        # the walk itself, module by module, as recorded at the walker's enter/leave callbacks
        per_mod, cur = {}, None
        for ev in r.walk:
            if ev[1] == "module" and ev[0] == "enter":
                cur = ev[2]
                per_mod[cur] = []
            if cur is not None:
                per_mod[cur].append(ev)
            if ev[1] == "module" and ev[0] == "leave":
                cur = None
        for m in mods:
            if m["pkg"] != pk:
                continue
            o = observe(api, f"{pk}/{m['file']}", valid, pk)
            o["sorted"] = lists_sorted
            o["schema"] = api.get("schemaVersion", 0) if isinstance(api.get("schemaVersion", 0), int) else 0
            obs.append({"id": m["id"], "kind": "inventory", "sc": {k: m[k] for k in ("k", "name", "flags", "ch")}, "obs": o})
            evs = per_mod.get(f"{pk}.{m['file']}")
            if evs is not None:
                n_walk += len(evs)
                obs.append({"id": f"walk:{m['id']}", "kind": "walk", "sc": {k: m[k] for k in ("k", "name", "flags", "ch")}, "obs": {"walk": evs}})
    v.extra["walk_events_validated"] = n_walk
    bad = judge(v, "C12_Trace", obs)
    by_id = {o["id"]: o for o in obs}
    for b in bad:
        o = by_id.get(b.get("subject"))
        if o:
            b["python"] = module_src(o["sc"])
            b["expected"] = str(b.get("expected", ""))[:600]
            b["observed"] = str(b.get("observed", ""))[:600]
    v.add_bad(bad)
    inv = [o for o in obs if o["kind"] == "inventory"]
    v.samples = [{"python": module_src(o["sc"]), "entries": [e["id"] for e in o["obs"]["entries"]]} for o in inv[:: max(1, len(inv) // 2)]][:2]
    v.samples += [{"walk": o["obs"]["walk"][:12]} for o in obs if o["kind"] == "walk"][:1]
    v.extra["modules_judged"] = len(inv)
    v.extra["entries_judged"] = sum(len(o["obs"]["entries"]) for o in inv)
    v.assumptions += ["sortedness of the top-level lists is computed by the harness (TLC has no string order) and passed as a fact", "mypy 1.20.2"]
