"""C15 - the test-run flag alone controls whether test and docs directories are analysed (spec/Discover.tla)."""
from __future__ import annotations

from common import TIER, Verdict, sha
from facts import Stubs
from flow import generate, judge
from pygen import write_pkg
from runner import Opts, run_many


def dirs_of(files) -> list:
    ds = set()
    for f in files:
        p = f["path"]
        for j in range(1, len(p) + 1):
            ds.add(tuple(p[:j]))
    return sorted(ds)


def plain_dirs(files) -> set:
    """Directories without an __init__.py: those that hold only a test__init__ module (small trees)."""
    by_dir = {}
    for f in files:
        by_dir.setdefault(tuple(f["path"]), set()).add(f["stem"])
    return {d for d, stems in by_dir.items() if stems == {"test__init__"} and not any(len(o) > len(d) and o[:len(d)] == d for o in by_dir)}


def tree_files(files, root: str) -> dict:
    """Every directory is a package whose __init__ declares something; the root module keepmod imports every package, so that the
    type checker loads all of them (a file that is imported is still a file located in its directory)."""
    out = {"__init__.py": ""}
    for d in dirs_of(files):
        if d in plain_dirs(files):
            continue
        tag = "_".join(d)
        out["/".join(d) + "/__init__.py"] = f"def init_fn_{tag}() -> int:\n    ...\n"
        if any(seg in ("test", "tests", "docs") for seg in d):      # the package files of filtered directories re-export a class of a private module
            out["/".join(d) + "/__init__.py"] = f"from {root}._hiddenmod import HiddenCls\n\n\n" + out["/".join(d) + "/__init__.py"]
    out["_hiddenmod.py"] = "class HiddenCls:\n    def hm(self) -> int:\n        ...\n"
    for f in files:
        p = f["path"]
        tag = "_".join([*p, f["stem"]]).replace(".", "_")
        text = f"def fn_{tag}(a: int) -> int:\n    ...\n\n\nclass Cl_{tag}:\n    pass\n"
        if not p and f["stem"] == "keepmod":
            text = "".join(f"import {'.'.join([root, *d])}\n" for d in dirs_of(files) if d not in plain_dirs(files)) + "\n\n" + text
            # ... and every module in them (the type checker follows imports; discovery must not)
            text = "".join(f"import {'.'.join([root, *g['path'], g['stem']])}\n" for g in files
                           if g["path"] and tuple(g["path"]) not in plain_dirs(files)) + text
        out["/".join([*p, f["stem"] + ".py"])] = text
    return out


def main(v: Verdict) -> None:
    trees = generate(v, "Discover", "C15_MC.cfg", min_records=50)
    if not trees:
        return
    trees.sort(key=lambda t: -len(t["files"]))
    if TIER == "quick":
        trees = trees[:1] + trees[1::9]
    jobs, meta = [], []
    for k, t in enumerate(trees):
        root = f"dirpk{k:03d}"
        d = write_pkg(tree_files(t["files"], root), root)
        for tr in (False, True):
            jobs.append({"src": d, "opts": Opts(testrun=tr), "timeout": 600})
            meta.append((k, root, tr))
    runs = run_many(jobs)
    res = {}
    for (k, root, tr), r in zip(meta, runs):
        res[(k, tr)] = (root, r)
    obs = []
    for k, t in enumerate(trees):
        (root, off), (_, on) = res[(k, False)], res[(k, True)]
        if off.exit != "ok" or on.exit != "ok":
            v.extra.setdefault("unobservable", []).append({"tree": k, "off": off.exit, "on": on.exit, "exc": off.exc or on.exc, "frame": off.frame or on.frame})
            continue
        facts = {}
        for tr, r in ((False, off), (True, on)):
            api = r.api() or {}
            ids = [e["id"] for key in ("modules", "classes", "functions", "parameters", "results") for e in api.get(key, [])]
            stubs = Stubs(r)
            by_mod = {}
            for rel, text in r.stubs.items():
                f = stubs.files.get(rel)
                if f is not None:
                    by_mod[f.pymodule or f.package] = sha(text)
            facts[tr] = (ids, by_mod)
        for f in t["files"]:
            mid = "/".join([root, *f["path"], f["stem"]])
            dotted = mid.replace("/", ".")
            o = {"path": f["path"], "stem": f["stem"]}
            for tr, key in ((False, "Off"), (True, "On")):
                ids, by_mod = facts[tr]
                o["json" + key] = any(i == mid or i.startswith(mid + "/") for i in ids)
                o["stub" + key] = dotted in by_mod
                o["digest" + key] = by_mod.get(dotted, "")
            obs.append({"id": f"tree{k}:{mid}", "obs": o})
        # the __init__ files of the directories: they never get a stub of their own, only the API JSON can show them
        for dpath in dirs_of(t["files"]):
            if dpath in plain_dirs(t["files"]):
                continue
            mid = "/".join([root, *dpath])
            decl = f"{mid}/init_fn_{'_'.join(dpath)}"
            o = {"path": list(dpath), "stem": "__init__"}
            for tr, key in ((False, "Off"), (True, "On")):
                ids, _ = facts[tr]
                seen = any(i == mid or i == decl or i.startswith(decl + "/") for i in ids)
                o["json" + key], o["stub" + key], o["digest" + key] = seen, seen, ""
            obs.append({"id": f"tree{k}:{mid}/__init__", "obs": o})
        # the private module whose class only package files of filtered directories re-export
        api_off = off.api() or {}
        cls = next((c for c in api_off.get("classes", []) if c["id"] == f"{root}/_hiddenmod/HiddenCls"), None)
        stub_off = any("HiddenCls" in text for text in off.stubs.values())
        obs.append({"id": f"tree{k}:hidden", "obs": {"role": "hidden", "stubOff": stub_off, "publicOff": bool(cls and cls.get("is_public"))}})
    bad = judge(v, "C15_Trace", obs)
    v.add_bad(bad)
    v.samples = obs[:2] + obs[-2:]
    v.extra["trees"] = len(trees)
    v.extra["files_judged"] = len(obs)
    v.extra["runs"] = len(runs)
    v.assumptions += ["scratch paths contain no segment called test, tests or docs (the filter looks at all parts of the absolute path)"]
