"""C15 - the test-run flag alone controls whether test and docs directories are analysed (spec/Discover.tla)."""
from __future__ import annotations

from common import TIER, Verdict, sha
from facts import Stubs
from flow import generate, judge
from pygen import write_pkg
from runner import Opts, run_many


def tree_files(files) -> dict:
    out = {"__init__.py": ""}
    for f in files:
        p = f["path"]
        for j in range(1, len(p) + 1):
            out["/".join(p[:j]) + "/__init__.py"] = ""
        tag = "_".join([*p, f["stem"]]).replace(".", "_")
        out["/".join([*p, f["stem"] + ".py"])] = f"def fn_{tag}(a: int) -> int:\n    ...\n\n\nclass Cl_{tag}:\n    pass\n"
    return out


def main(v: Verdict) -> None:
    trees = generate(v, "Discover", "C15_MC.cfg", min_records=50)
    if not trees:
        return
    trees.sort(key=lambda t: -len(t["files"]))
    if TIER == "quick":
        trees = trees[:1] + trees[1::9]
    jobs, meta = [], []
    for k, t in enumerate(trees):
        root = f"dirpk{k:03d}"
        d = write_pkg(tree_files(t["files"]), root)
        for tr in (False, True):
            jobs.append({"src": d, "opts": Opts(testrun=tr), "timeout": 600})
            meta.append((k, root, tr))
    runs = run_many(jobs)
    res = {}
    for (k, root, tr), r in zip(meta, runs):
        res[(k, tr)] = (root, r)
    obs = []
    for k, t in enumerate(trees):
        (root, off), (_, on) = res[(k, False)], res[(k, True)]
        if off.exit != "ok" or on.exit != "ok":
            v.extra.setdefault("unobservable", []).append({"tree": k, "off": off.exit, "on": on.exit, "exc": off.exc or on.exc, "frame": off.frame or on.frame})
            continue
        facts = {}
        for tr, r in ((False, off), (True, on)):
            api = r.api() or {}
            ids = [e["id"] for key in ("modules", "classes", "functions", "parameters", "results") for e in api.get(key, [])]
            stubs = Stubs(r)
            by_mod = {}
            for rel, text in r.stubs.items():
                f = stubs.files.get(rel)
                if f is not None:
                    by_mod[f.pymodule or f.package] = sha(text)
            facts[tr] = (ids, by_mod)
        for f in t["files"]:
            mid = "/".join([root, *f["path"], f["stem"]])
            dotted = mid.replace("/", ".")
            o = {"path": f["path"], "stem": f["stem"]}
            for tr, key in ((False, "Off"), (True, "On")):
                ids, by_mod = facts[tr]
                o["json" + key] = any(i == mid or i.startswith(mid + "/") for i in ids)
                o["stub" + key] = dotted in by_mod
                o["digest" + key] = by_mod.get(dotted, "")
            obs.append({"id": f"tree{k}:{mid}", "obs": o})
    bad = judge(v, "C15_Trace", obs)
    v.add_bad(bad)
    v.samples = obs[:2] + obs[-2:]
    v.extra["trees"] = len(trees)
    v.extra["files_judged"] = len(obs)
    v.extra["runs"] = len(runs)
    v.assumptions += ["scratch paths contain no segment called test, tests or docs (the filter looks at all parts of the absolute path)"]
