"""C17 - members of private ancestors surface once in public subclasses (spec/Inherit.tla)."""
from __future__ import annotations

import re

from common import TIER, Verdict
from facts import Stubs
from flow import generate, judge
from pygen import write_pkg
from runner import Opts, run_many

PKG = "inhpk"


def cname(hid, k, pub):
    return f"{'' if pub else '_'}H{hid}C{k}"


PYNAME = {"m1": "m_one", "m2": "m_two"}       # Python names with an inner underscore (they change under naming conversion)


def class_src(hid, k, c, h, attrshadow=False, abstract="", viamodule=False, methkind="") -> str:
    bases = ", ".join((f"inha_base.{cname(hid, b, h[b - 1]['pub'])}[int]" if viamodule and b == 1 else cname(hid, b, h[b - 1]["pub"])) for b in c["bases"])
    if viamodule and k == 1:
        bases = (bases + ", " if bases else "") + "Generic[T_inh]"
    if abstract and c["pub"] and bases:
        bases = f"ABC, {bases}" if abstract == "first" else f"{bases}, ABC"
    L = [f"class {cname(hid, k, c['pub'])}" + (f"({bases})" if bases else "") + ":"]
    for m in sorted(c["ms"]):
        if attrshadow and c["pub"]:
            L += [f"    {PYNAME[m]}: int = {k}", ""]
        elif methkind and not c["pub"]:
            L += [f"    @{methkind}method" if methkind == "static" else "    @classmethod",
                  f"    def {PYNAME[m]}({'' if methkind == 'static' else 'cls, '}from_c{k}: int) -> int:", "        ...", ""]
        else:
            L += [f"    def {PYNAME[m]}(self, from_c{k}: int) -> int:", "        ...", ""]
    if not c["ms"]:
        L += ["    pass", ""]
    return "\n".join(L) + "\n"


def main(v: Verdict) -> None:
    scs = generate(v, "Inherit", "C17_MC.cfg" if TIER == "quick" else "C17_MC_thorough.cfg", min_records=300)
    if not scs:
        return
    for hid, sc in enumerate(scs, 1):
        sc["id"] = hid

    def build(group, pkg):
        a_parts, b_parts, imports, inits = [], [], [], []
        for sc in group:
            hid, h = sc["id"], sc["h"]
            if sc.get("decoy"):
                a_parts.append(f"class Reg{hid}:\n    class {cname(hid, 1, False)}:\n        def decoy_m(self, from_decoy: int) -> int:\n            ...\n\n"
                               f"        def m1(self, from_c9: int) -> int:\n            ...\n")
            if sc.get("aliased"):
                inits.append(f"from .{'inha_base' if sc['split'] else 'inha'} import {cname(hid, 1, False)} as H{hid}C1Shown")
            for k, c in enumerate(h, 1):
                src = class_src(hid, k, c, h, sc.get("attrshadow", False), sc.get("abstract", ""), sc.get("viamodule", False), sc.get("methkind", ""))
                if sc["split"] and k == 1:
                    b_parts.append(src)
                    imports.append(f"from {pkg} import inha_base" if sc.get("viamodule") else f"from {pkg}.inha_base import {cname(hid, 1, c['pub'])}")
                else:
                    a_parts.append(src)
        files = {"__init__.py": "\n".join(inits) + "\n", "inha.py": "from abc import ABC\n" + "\n".join(imports) + "\n\n" + "\n".join(a_parts), "inha_base.py": "from typing import Generic, TypeVar\n\nT_inh = TypeVar(\"T_inh\")\n\n\n" + ("\n".join(b_parts) or "X = 1\n")}
        return write_pkg(files, pkg)
    # hierarchies whose private ancestor is re-exported under an alias go into packages of their own (300 each): the tool's re-export
    # bookkeeping is quadratic in the number of re-exports
    plain = [sc for sc in scs if not sc.get("aliased")]
    al = [sc for sc in scs if sc.get("aliased")]
    shadow = [sc for sc in plain if sc.get("attrshadow")]
    plain = [sc for sc in plain if not sc.get("attrshadow")]
    groups = [(plain, PKG, False)] + [(al[c:c + 300], f"{PKG}al{c // 300}", False) for c in range(0, len(al), 300)] + [(shadow, f"{PKG}sh", False), (shadow, f"{PKG}shnc", True)]
    groups = [g for g in groups if g[0]]
    rs = run_many([{"src": build(g, pkg), "opts": Opts(nc=nc), "timeout": 1500} for g, pkg, nc in groups])
    bad_runs = [r for r in rs if r.exit != "ok"]
    if bad_runs:
        r = bad_runs[0]
        v.machinery(f"run failed: {r.exit} {r.exc} {r.frame} {r.msg}  (crashes are C01's business; nothing observable here)")
        return
    SPEC_NAME = {v_: k_ for k_, v_ in PYNAME.items()}
    obs = []
    for (group, pkg, nc), r in zip(groups, rs):
        stubs = Stubs(r)
        tops = {}
        for rel, f in stubs.files.items():
            for d in f.members:
                tops.setdefault(d.pyname, []).append((f, d))
        for sc in group:
            hid, h = sc["id"], sc["h"]
            index = {cname(hid, k, c["pub"]): k for k, c in enumerate(h, 1)}
            for k, c in enumerate(h, 1):
                if not c["pub"]:
                    continue
                found = tops.get(cname(hid, k, True), [])
                if len(found) != 1 or found[0][1].kind != "class":
                    o = {"missing": True, "k": k, "meths": [], "supers": [], "unimported": []}
                else:
                    f, d = found[0]
                    meths = []
                    for m in d.members:
                        if m.pyname not in SPEC_NAME:
                            continue
                        if m.kind == "fun":
                            origin = 0
                            for p in m.params or []:
                                mo = re.fullmatch(r"from_c(\d+)", p["pyname"])
                                if mo:
                                    origin = int(mo.group(1)) if int(mo.group(1)) <= len(h) else 0
                            meths.append({"name": SPEC_NAME[m.pyname], "origin": origin})
                        elif m.kind == "attr":      # a class attribute of that name is the class's own definition
                            meths.append({"name": SPEC_NAME[m.pyname], "origin": k})
                    supers, unimp = [], []
                    imported = {name for _, name, _ in f.imports}
                    declared = {x.pyname for x in f.members}
                    for s_ in d.supers:
                        nm = s_.get("n", "").split(".")[-1] if s_.get("k") == "named" else ""
                        idx = index.get(nm, 0)
                        supers.append(idx)
                        if idx and nm not in imported and nm not in declared:
                            unimp.append(idx)
                    o = {"missing": False, "k": k, "meths": meths, "supers": supers, "unimported": unimp}
                scj = {"h": h, "split": sc["split"], "decoy": sc.get("decoy", False), "aliased": sc.get("aliased", False)}
                if sc.get("attrshadow"):
                    scj["attrshadow"] = True
                if sc.get("abstract"):
                    scj["abstract"] = sc["abstract"]
                if sc.get("viamodule"):
                    scj["viamodule"] = True
                if sc.get("methkind"):
                    scj["methkind"] = sc["methkind"]
                obs.append({"id": f"H{hid}C{k}" + (":nc" if nc else ""), "sc": scj, "obs": o})
    bad = judge(v, "C17_Trace", obs)
    by_id = {o["id"]: o for o in obs}
    for b in bad:
        o = by_id.get(b.get("subject"))
        if o:
            hid = int(re.match(r"H(\d+)C", o["id"]).group(1))
            b["python"] = "".join(class_src(hid, k, c, o["sc"]["h"], o["sc"].get("attrshadow", False), o["sc"].get("abstract", ""), o["sc"].get("viamodule", False), o["sc"].get("methkind", "")) for k, c in enumerate(o["sc"]["h"], 1))
            b["split"] = o["sc"]["split"]
    v.add_bad(bad)
    v.samples = [{"hierarchy": o["sc"], "observed": o["obs"]} for o in obs[:: max(1, len(obs) // 3)]][:3]
    v.extra["hierarchies"] = len(scs)
    v.extra["public_classes_judged"] = len(obs)
    v.assumptions += ["the origin of an inherited method is read from a parameter named after its defining class",
                      "a winner is accepted if it is a nearest definer by distance or the definer Python's own resolution order picks"]
