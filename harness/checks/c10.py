"""C10 - stub files are laid out by module path inside the output directory (spec/Layout.tla)."""
from __future__ import annotations

import os
import re
from pathlib import Path

from common import TIER, Verdict, fresh_dir, sha
from flow import generate, judge
from pygen import write_pkg
from runner import Opts, run_many
from tlc import run_tlc
import sds
import topo

FOREIGN_SRC = '''from __future__ import annotations
from collections import Counter, OrderedDict, deque
from collections.abc import Sized
from decimal import Decimal
from email.parser import Parser
from html.parser import HTMLParser
from pathlib import Path, PurePath


def fa(p: Path, q: PurePath) -> Decimal:
    ...


def fb(s: Sized, c: Counter[str], o: OrderedDict[str, int], d: deque[int]) -> Path:
    ...


def fc(a: Parser, b: HTMLParser) -> int:
    ...
'''


SHAPES: dict = {}      # scenario directory -> the scenario's signature as computed by the specification


def run_obs(r, srcname: str, aliases_by_sid: dict) -> dict:
    out = str(r.out)
    writes = []
    for w in r.writes:
        p = w["path"]
        rel = os.path.relpath(p, out).split(os.sep) if (p == out or p.startswith(out.rstrip("/") + "/")) else ["@outside", *Path(p).parts[1:]]
        isstub, isapi = p.endswith(".sdsstub"), p.endswith(".json")
        pymod, tops, parsed = [], [], False
        if isstub and w["mode"] != "a":
            ast, _ = sds.try_parse(w["text"])
            if ast is not None:
                parsed = True
                pymod = (ast.pymodule or ast.package).split(".")
                tops = [d.pyname for d in ast.members]
        sid = next((s for s in rel if re.fullmatch(r"s\d{4}", s)), "")
        kind = "api" if isapi else ("stub" if sid or not isstub else "foreign")
        writes.append({"path": p, "mode": w["mode"], "digest": sha(w["text"]), "rel": rel, "isstub": isstub, "isapi": isapi, "parsed": parsed,
                       "pymodule": pymod or ["@none"], "base": Path(p).stem, "tops": tops, "aliases": aliases_by_sid.get(sid, []), "kind": kind, "shape": SHAPES.get(sid, "")})
    return {"out": out, "srcname": srcname, "writes": writes}


def main(v: Verdict) -> None:
    r = run_tlc("Layout", "C10_MC.cfg" if TIER == "quick" else "C10_MC_thorough.cfg", workers=8, timeout=1500)
    v.add_tlc(r)
    if not r["ok"]:
        v.machinery(f"design model checking of Layout failed: {r['errors'][:3]}")
        return
    scs = generate(v, "Package", "Topo_MC.cfg" if TIER == "quick" else "Topo_MC_thorough.cfg", min_records=200)
    if not scs:
        return
    for k, sc in enumerate(scs):
        sc["id"] = k + 1
    packs = topo.build_packs(scs)
    if TIER == "quick":
        packs = packs[::3]
    # a re-exported *module* keeps its content; its file is named after the name under which the package exposes the module
    aliases = {f"s{sc['id']:04d}": [topo.names(sc)["alias" if sc["reexp"]["form"] == "modalias" else "stem"]]
               for sc in scs if sc["reexp"]["form"] in ("modalias", "module")}
    jobs, meta = [], []
    for k, (d, chunk) in enumerate(packs):
        variant = k % 4
        work = fresh_dir("c10")
        if variant == 0:
            kw = {"opts": Opts()}
        elif variant == 1:
            kw = {"opts": Opts(nc=True)}
        elif variant == 2:
            kw = {"opts": Opts(), "spelling": "rel", "cwd": work, "out": work / "relout"}
        else:
            kw = {"opts": Opts(nc=True), "out": work / "deep" / "missing" / "dir"}
        jobs.append({"src": d, "timeout": 600, **kw})
        meta.append((d.name, ["abs", "abs+nc", "relative", "nested-missing+nc"][variant]))
    # universe U2 (two interacting declarations, package files with declarations, same-named modules ...): same judgement of the writes
    scs2 = generate(v, "Package2", "Topo2_MC.cfg", min_records=50)
    for k, sc in enumerate(scs2):
        sc["id"] = 5000 + k
        SHAPES[f"s{sc['id']:04d}"] = sc.get("shape", "")
        if sc.get("variant") in ("samemodule", "pkgmodreexp"):       # a module re-exported as a whole keeps its own name as file name
            aliases[f"s{sc['id']:04d}"] = [topo.u2_names(sc)["m1"] if sc["variant"] == "samemodule" else "deep"]
        if sc.get("variant") == "samemoduleboth":      # ... or the name the re-exporting package gives it
            aliases[f"s{sc['id']:04d}"] = [topo.u2_names(sc)["m1"], *(e["alias"] + topo.sfx(sc["id"]) for e in sc["exports"])]
    for c in range(0, len(scs2), 30):
        root = f"toptwo{c // 30:02d}"
        files = {"__init__.py": ""}
        for sc in scs2[c:c + 30]:
            files.update(topo.u2_files(sc, root))
        jobs.append({"src": write_pkg(files, root), "timeout": 600, "opts": Opts(nc=bool((c // 30) % 2))})
        meta.append((root, f"universe-U2 nc={bool((c // 30) % 2)}"))
    # the directory given with -s is not the package but its parent / grandparent: the inventory is still named after that directory
    for k, (d, chunk) in enumerate(packs[:2]):
        jobs.append({"src": d.parent, "timeout": 600, "opts": Opts(nc=bool(k))})
        meta.append((d.parent.name, f"source-is-parent-of-package nc={bool(k)}"))
    import shutil
    gp = fresh_dir("c10gp")
    shutil.copytree(packs[0][0], gp / "wrap" / "inner" / packs[0][0].name)
    jobs.append({"src": gp, "timeout": 600, "opts": Opts()})
    meta.append((gp.name, "source-is-ancestor-of-package"))
    # a source directory that holds two top-level packages (the module paths do not start with the directory's name); one of them
    # uses a NewType and a conditional class of its own across modules
    two = fresh_dir("c10two") / "holder"
    for rel, text in {"alphapk/__init__.py": "", "alphapk/ids_mod.py": "from typing import NewType\n\nUserId = NewType(\"UserId\", int)\n\n\ndef make_id() -> int:\n    ...\n",
                      "alphapk/user_mod.py": "from alphapk.ids_mod import UserId\n\n\ndef user_name(u: UserId) -> UserId:\n    ...\n",
                      "betapk/__init__.py": "", "betapk/bmod.py": "def beta_fn() -> int:\n    ...\n"}.items():
        (two / rel).parent.mkdir(parents=True, exist_ok=True)
        (two / rel).write_text(text)
    jobs.append({"src": two, "timeout": 600, "opts": Opts()})
    meta.append((two.name, "source-holds-two-packages"))
    dotted = fresh_dir("c10dot") / "rel-1.0"       # a source directory whose name contains a dot
    shutil.copytree(packs[0][0], dotted / packs[0][0].name)
    jobs.append({"src": dotted, "timeout": 600, "opts": Opts()})
    meta.append((dotted.name, "source-directory-name-with-dot"))
    from pygen import FOREIGN_LIB, FOREIGN_LIB_USE
    # ... and an enum of the package used as a type in another module (it must not be taken for a class of another library)
    fpk = write_pkg({"__init__.py": "", "formod.py": FOREIGN_SRC, "flibuse.py": FOREIGN_LIB_USE,
                     "colors.py": "from enum import Enum\n\n\nclass Color(Enum):\n    RED = 1\n\n\ndef other_colors() -> int:\n    ...\n",
                     "enumuser.py": "from forgnpk.colors import Color\n\n\ndef paint(c: Color) -> Color:\n    ...\n",
                     # names of the package that are no analysed classes (a class under 'if', a NewType) used as types elsewhere
                     "compat.py": "import sys\n\nif sys.version_info >= (3, 0):\n    class Handle:\n        pass\n\n\ndef open_handle() -> int:\n    ...\n",
                     "compatuser.py": "from forgnpk.compat import Handle\n\n\ndef use_handle(h: Handle) -> Handle:\n    ...\n",
                     "ids.py": "from typing import NewType\n\nUserId = NewType(\"UserId\", int)\n\n\ndef other_ids() -> int:\n    ...\n",
                     "idsuser.py": "from forgnpk.ids import UserId\n\n\ndef use_id(u: UserId) -> UserId:\n    ...\n"}, "forgnpk", siblings=FOREIGN_LIB)
    for nc in (False, True):
        jobs.append({"src": fpk, "opts": Opts(nc=nc), "timeout": 300})
        meta.append((fpk.name, f"foreign-classes nc={nc}"))
    runs = run_many(jobs)
    # a second run into the already populated output directory of the foreign-class package
    from runner import run_cli
    first = runs[-2]
    if first.exit == "ok":
        runs.append(run_cli(fpk, Opts(), out=first.out, timeout=300))
        meta.append((fpk.name, "foreign-classes rerun-into-populated-directory"))
    obs = []
    for (name, variant), run in zip(meta, runs):
        if run.exit != "ok":
            v.extra.setdefault("unobservable", []).append({"pack": name, "variant": variant, "exit": run.exit, "exc": run.exc, "frame": run.frame})
            continue
        obs.append({"id": f"{name}:{variant}", "obs": run_obs(run, name, aliases)})
    bad = judge(v, "C10_Trace", obs)
    v.add_bad(bad)
    v.samples = [{"run": o["id"], "writes": [{k: w[k] for k in ("rel", "mode", "pymodule", "base", "kind")} for w in o["obs"]["writes"][:4]]} for o in obs[:2]]
    v.extra["runs_judged"] = len(obs)
    v.extra["write_events"] = sum(len(o["obs"]["writes"]) for o in obs)
    v.assumptions += ["write events are recorded by wrapping pathlib.Path.open in the child process", "stub parser harness/sds.py is hand-written"]
