"""C06 - parameter lists are reproduced exactly (spec/Signature.tla)."""
from __future__ import annotations

from common import TIER, Verdict
from facts import Stubs, api_index, member
from flow import generate, judge
from pygen import lit_src, norm_default, write_pkg
from runner import Opts, run_cli

ANN_BY_T = {"int": "int", "float": "float", "str": "str", "bool": "bool", "none": "Optional[int]"}
PKG, MOD = "sigpk", "sigmod"


def _params_src(sc, lits) -> str:
    parts = []
    ps = sc["params"]
    kinds = [p["kind"] for p in ps]
    star_done = "vararg" in kinds
    for k, p in enumerate(ps):
        kind = p["kind"]
        if kind == "kwonly" and not star_done:
            parts.append("*")
            star_done = True
        name = p["name"]
        lit = lits[p["lit"] - 1] if p["lit"] else None
        ann = ""
        if sc["ann"]:
            ann = ": " + (ANN_BY_T[lit["t"]] if lit else "int")
        pre = "*" if kind == "vararg" else "**" if kind == "kwarg" else ""
        dflt = ""
        if lit:
            dflt = (" = " if ann else "=") + lit_src(lit["src"])
        parts.append(f"{pre}{name}{ann}{dflt}")
        if kind == "posonly" and (k + 1 == len(ps) or ps[k + 1]["kind"] != "posonly"):
            parts.append("/")
    return ", ".join(parts)


def concretise(scs, lits) -> str:
    out = ["import dataclasses", "from dataclasses import dataclass, field", "from typing import Optional", ""]
    for sc in scs:
        i, ck = sc["id"], sc["ck"]
        ps = _params_src(sc, lits)
        if ck == "docfunction":
            doc = ['    """Summary.', "", "    Parameters", "    ----------"]
            for p in sc["params"]:
                if p["kind"] in ("vararg", "kwarg"):
                    continue
                lit = lits[p["lit"] - 1] if p["lit"] else None
                doc += [f"    {p['name']} : {ANN_BY_T[lit['t']] if lit else 'int'}", f"        The {p['name']}."]
            doc.append('    """')
            out += [f"def f{i}({ps}):", *doc, "    ...", ""]
        elif ck == "dataclass":
            fields = []
            for j, p in enumerate(sc["params"]):      # the three spellings of a field value
                lit = lits[p["lit"] - 1] if p["lit"] else None
                val = "" if not lit else [" = {}", " = field(default={})", " = dataclasses.field(default={})"][(i + j) % 3].format(lit_src(lit["src"]))
                fields.append(f"    {p['name']}: {ANN_BY_T[lit['t']] if lit else 'int'}" + val)
            # a dataclass that inherits every field; and an ordinary class with an explicit constructor whose default is `...`
            out += ["@dataclass", f"class K{i}:", *fields, "", "@dataclass", f"class KSub{i}(K{i}):", "    pass", ""]
        elif ck == "refunction":
            first = sc["params"][0]["name"] if sc["params"] and sc["params"][0]["kind"] in ("pos", "posonly") else "p1"
            out += [f"def f{i}({first}=7, zold=8): ...", "", f"def f{i}({ps}): ...", ""]
        elif ck == "function":
            out += [f"def f{i}({ps}): ...", ""]
        else:
            recv = {"method": "self", "ctor": "self", "classmethod": "cls", "static": "", "starmethod": "", "starctor": "", "newmethod": "cls"}[ck]
            full = ", ".join(x for x in (recv, ps) if x)
            deco = {"static": "    @staticmethod\n", "classmethod": "    @classmethod\n"}.get(ck, "")
            name = "__init__" if ck in ("ctor", "starctor") else "__new__" if ck == "newmethod" else "m"
            out += [f"class K{i}:", f"{deco}    def {name}({full}): ...", ""]
    return "\n".join(out)


def observe(sc, stubs: Stubs, idx) -> dict:
    i, ck = sc["id"], sc["ck"]
    none = {"missing": True, "stub": [], "json": []}
    if ck in ("function", "docfunction", "refunction"):
        tops = stubs.top(f"f{i}")
        if len(tops) != 1:
            return none
        decl = tops[0][1]
        fid = f"{PKG}/{MOD}/f{i}"
    else:
        tops = stubs.top(f"K{i}")
        if len(tops) != 1:
            return none
        cls = tops[0][1]
        if ck in ("ctor", "starctor", "dataclass"):
            decl = cls
            fid = f"{PKG}/{MOD}/K{i}/__init__"
        else:
            mname = "__new__" if ck == "newmethod" else "m"
            decl = member(cls, mname, "fun")
            fid = f"{PKG}/{MOD}/K{i}/{mname}"
    if decl is None or decl.params is None:
        return none
    fj = idx.get("functions", {}).get(fid)
    if fj is None:
        return none
    stub = [{"name": p["pyname"], "dflt": norm_default(p["default"])} for p in decl.params]
    js = []
    for pid in fj["parameters"]:
        pj = idx.get("parameters", {}).get(pid)
        if pj is None:
            js.append({"name": pid.split("/")[-1], "kind": "@dangling", "optional": False})
        else:
            js.append({"name": pj["name"], "kind": pj["assigned_by"], "optional": bool(pj["is_optional"])})
    return {"missing": False, "stub": stub, "json": js}


def main(v: Verdict) -> None:
    import json, re
    from common import SPEC
    cfg = "C06_MC.cfg" if TIER == "quick" else "C06_MC_thorough.cfg"
    scs = generate(v, "Signature", cfg, min_records=100)
    if not scs:
        return
    for k, sc in enumerate(scs):
        sc["id"] = k + 1
    # the literal table lives in the spec; read it from there so that the concretiser cannot drift
    lits = _lits_from_spec()
    src = concretise(scs, lits)
    pkg = write_pkg({"__init__.py": "", f"{MOD}.py": src}, PKG)
    runs = [run_cli(pkg, Opts(nc=False)), ] if TIER == "quick" else [run_cli(pkg, Opts(nc=False)), run_cli(pkg, Opts(nc=True))]
    # the documented functions under the NumPy style, with either type source preferred
    doc_runs = [run_cli(pkg, Opts(docstyle="NUMPYDOC", tsp="DOCSTRING")), run_cli(pkg, Opts(docstyle="NUMPYDOC", tsp="CODE"))]
    obs = []
    for r in doc_runs:
        if r.exit != "ok" or r.api() is None:
            v.extra.setdefault("unobservable", []).append({"run": r.opts.key(), "exit": r.exit, "exc": r.exc, "frame": r.frame})
            continue
        stubs = Stubs(r)
        idx = api_index(r.api())
        for sc in scs:
            if sc["ck"] == "docfunction":
                obs.append({"id": f"{r.opts.key()}#{sc['id']}", "sc": {k2: sc[k2] for k2 in ("ck", "ann", "selfish", "params")}, "obs": observe(sc, stubs, idx)})
    for r in runs:
        if r.exit != "ok" or r.api() is None:
            v.extra.setdefault("unobservable", []).append({"run": r.opts.key(), "exit": r.exit, "exc": r.exc, "frame": r.frame})
            continue
        stubs = Stubs(r)
        idx = api_index(r.api())
        for sc in scs:
            o = observe(sc, stubs, idx)
            obs.append({"id": f"{r.opts.key()}#{sc['id']}", "sc": {k2: sc[k2] for k2 in ("ck", "ann", "selfish", "params")}, "obs": o})
    bad = judge(v, "C06_Trace", obs)
    by_id = {o["id"]: o for o in obs}
    for b in bad:
        o = by_id.get(b.get("subject"))
        if o:
            b["scenario"] = o["sc"]
            b["python"] = concretise([dict(o["sc"], id=0)], lits)
    v.add_bad(bad)
    v.samples = [{"scenario": o["sc"], "observed": o["obs"]} for o in obs[:: max(1, len(obs) // 4)]][:4]
    v.extra["scenarios_generated"] = len(scs)
    v.extra["scenarios_replayed"] = len(obs)
    v.extra["bounds"] = {"MaxP": 3 if TIER == "quick" else 4, "callable_kinds": 5, "literals": len(lits)}
    v.assumptions += ["stub parser harness/sds.py is hand-written (calibrated on 44 upstream snapshots)", "mypy 1.20.2"]


def _lits_from_spec():
    import re
    from common import SPEC
    txt = (SPEC / "Signature.tla").read_text()
    pat = re.compile(r'\[src \|-> "([^"]*)",\s*t \|-> "([^"]*)",\s*v \|-> "((?:[^"\\]|\\.)*)"\]')
    out = []
    for m in pat.finditer(txt):
        v = m.group(3).replace('\\"', '"').replace("\\\\", "\\")      # undo TLA+ string escapes
        out.append({"src": m.group(1), "t": m.group(2), "v": v})
    return out
