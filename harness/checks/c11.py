"""C11 - every referenced class is declared or imported, and every import resolves (spec/Closure.tla)."""
from __future__ import annotations

import re

from common import TIER, Verdict
from facts import Stubs
from flow import generate, judge
from pygen import write_pkg
from runner import Opts, run_many
import topo

SFX = re.compile(r"x(\d{4})x")
BUILTIN = {"Int", "String", "Boolean", "Float", "Any", "Nothing", "List", "Map", "Set", "Tuple"}
FOREIGN = '''from __future__ import annotations
from collections import Counter, OrderedDict, deque
from collections.abc import Sized
from decimal import Decimal
from email.parser import Parser
from html.parser import HTMLParser
from pathlib import Path


def ff(p: Path, o: OrderedDict[str, int], c: Counter[str]) -> Decimal:
    ...


def fg(s: Sized, d: deque[int], a: Parser, b: HTMLParser) -> int:
    ...


class FHolder(Path):
    pass
'''


# reference shapes outside universe U3 (spec/Closure.tla, MiscShapes): the class names carry the shape they belong to
MISC = {
    # the root package re-exports a class whose own signature needs an import
    "__init__.py": "from .inner.impl import RootrxWidget\n",
    # a declaration written into a package file uses a class of a module of that package
    "inner/__init__.py": "from clomisc.model_utils import PrefixsibHelper\n\n\ndef pkgfile_use(p: PrefixsibHelper) -> PrefixsibHelper:\n    ...\n",
    "inner/impl.py": ("from clomisc.inner.other import RootrxPart\nfrom clomisc.zzlast import RootrxLast\n\n\nclass RootrxWidget:\n    def m(self, p: RootrxPart) -> RootrxPart:\n        ...\n\n"
                      "    def uses_last(self, x: RootrxLast) -> RootrxLast:\n        ...\n"),
    # ... and a class of the module that is analysed and rendered last
    "zzlast.py": "class RootrxLast:\n    pass\n",
    "inner/other.py": "class RootrxPart:\n    pass\n",
    # a module whose name is a prefix of the module it uses
    "model.py": "from clomisc.model_utils import PrefixsibHelper\n\n\ndef prefixsib_use(h: PrefixsibHelper) -> PrefixsibHelper:\n    ...\n",
    "model_utils.py": "class PrefixsibHelper:\n    pass\n",
    # a class of the package that is named like a class of another library used elsewhere in the package
    "bigdecimal.py": "class Decimal:\n    pass\n",
    "money.py": "from decimal import Decimal\n\n\ndef samesuffix_pay(d: Decimal) -> Decimal:\n    ...\n",
    # an exception class of the package used as a type; Python builtins without Safe-DS counterpart
    "excdef.py": "class ExcclsError(Exception):\n    def detail(self) -> int:\n        ...\n\n\ndef exccls_same() -> ExcclsError:\n    ...\n",
    "excuse.py": "from clomisc.excdef import ExcclsError\n\n\ndef exccls_other(e: ExcclsError) -> int:\n    ...\n",
    "rawbuiltins.py": "def rawbuiltin_use(b: bytes, o: object) -> complex:\n    ...\n",
    # names of the package that no stub declares: a NewType, a class defined under an `if`, a private class in a public signature
    "ntdef.py": "from typing import NewType\n\nNewtypeId = NewType(\"NewtypeId\", int)\n\n\ndef newtype_same(i: NewtypeId) -> int:\n    ...\n",
    "ntuse.py": "from clomisc.ntdef import NewtypeId\n\n\ndef newtype_other(i: NewtypeId) -> NewtypeId:\n    ...\n",
    "conddef.py": "import sys\n\nif sys.version_info >= (3, 8):\n    class CondclsThing:\n        pass\n\n\ndef cond_fill() -> int:\n    ...\n",
    "conduse.py": "from clomisc.conddef import CondclsThing\n\n\ndef condcls_use(c: CondclsThing) -> CondclsThing:\n    ...\n",
    "privdef.py": "class _PrivclsHidden:\n    pass\n\n\ndef priv_fill() -> int:\n    ...\n",
    "privuse.py": "from clomisc.privdef import _PrivclsHidden\n\n\ndef privcls_use(h: _PrivclsHidden) -> _PrivclsHidden:\n    ...\n",
    # a nested class used from another module
    "nestdef.py": "class NestedOuter:\n    class NestedInner:\n        pass\n",
    "nestuse.py": "from clomisc.nestdef import NestedOuter\n\n\ndef nested_use(i: NestedOuter.NestedInner) -> NestedOuter:\n    ...\n",
}


def scenario_files(u, root: str) -> dict:
    t = dict(u["t"], id=u["id"])
    sid = f"s{u['id']:04d}"
    files = topo.scenario_files(t, sid)
    n = topo.names(t)
    tpath = topo.PLACE[t["place"]]
    if u["own"]:
        key = "/".join([sid, *tpath, n["stem"] + ".py"])
        files[key] += f"\n\ndef ownref{topo.sfx(u['id'])}(x: {n['decl']}) -> int:\n    ...\n"
    if u["via"] == "def":
        imp = f"from {'.'.join([root, sid, *tpath, n['stem']])} import {n['decl']}"
        local = n["decl"]
    else:
        r = t["reexp"]
        local = n["alias"] if r["form"] == "alias" else n["decl"]
        imp = f"from {'.'.join([root, sid, *tpath[:r['at']]])} import {local}"
    sec = u.get("second", {}).get("segs") or []
    if sec:        # a second, unrelated package re-exports the class by name too
        for j in range(1, len(sec)):
            files.setdefault("/".join([sid, *sec[:j], "__init__.py"]), "")
        if t["reexp"]["form"] == "module":     # ... as a whole module, like the first re-exporter
            files["/".join([sid, *sec, "__init__.py"])] = f"from {'.'.join([root, sid, *tpath])} import {n['stem']}\n"
        else:
            files["/".join([sid, *sec, "__init__.py"])] = f"from {'.'.join([root, sid, *tpath, n['stem']])} import {n['decl']}\n"
        # a package is only analysed when it contains a module of its own
        files["/".join([sid, *sec, "fillmod.py"])] = f"def fill{topo.sfx(u['id'])}() -> int:\n    ...\n"
    h = "holder" + topo.sfx(u["id"])
    body = {"param": f"def {h}(x: {local}) -> int:\n    ...\n", "result": f"def {h}() -> {local}:\n    ...\n",
            "attr": f"class {h}:\n    at: {local}\n", "super": f"class {h}({local}):\n    pass\n",
            "generic": f"def {h}(x: list[{local}]) -> int:\n    ...\n"}[u["pos"]]
    rpath = topo.PLACE[u["rplace"]]
    for j in range(len(rpath) + 1):
        files.setdefault("/".join([sid, *rpath[:j], "__init__.py"]), "")
    files["/".join([sid, *rpath, "refmod.py"])] = f"from __future__ import annotations\n{imp}\n\n\n{body}"
    return files


def refs_of(d, tparams, out, in_class_tparams=()):
    tps = set(tparams) | {tp["name"] for tp in d.typeparams}

    def walk(t, pos):
        if not t:
            return
        k = t["k"]
        if k == "named":
            out.append({"name": t["n"].split(".")[-1], "pos": pos, "tparam": t["n"] in tps, "args": len(t["a"])})
            for a in t["a"]:
                walk(a, "generic")
        elif k == "union":
            for a in t["a"]:
                walk(a, pos)
        elif k == "callable":
            for p in t["p"]:
                walk(p["type"], pos)
            for r in t["r"]:
                walk(r["type"], pos)
    for tp in d.typeparams:
        walk(tp["bound"], "bound")
    for p in d.params or []:
        walk(p["type"], "param")
    for r in d.results:
        walk(r["type"], "result")
    if d.kind == "attr":
        walk(d.type, "attr")
    for s in d.supers:
        walk(s, "super")
    for m in d.members:
        refs_of(m, tps, out)


def run_obs(r, scen_by_id, nc) -> dict:
    stubs = Stubs(r)
    files = []
    for rel, f in stubs.files.items():
        decls = []
        for owners, d in f.walk():
            if d.kind in ("class", "enum") or not owners:
                decls.append(d.name)
        refs = []
        for d in f.members:
            raw = []
            refs_of(d, (), raw)
            for x in raw:
                if x["name"] in BUILTIN:
                    continue
                m = SFX.search(x["name"])
                u = scen_by_id.get(int(m.group(1))) if m else None
                if u is not None:
                    refs.append({"name": x["name"], "pos": x["pos"], "tparam": x["tparam"], "kind": "u3",
                                 "sc": {"t": u["t"], "via": u["via"], "second": u.get("second", {}).get("segs") or [], "own": u["own"] and "ownref" in rel or (u["own"] and "refmod" not in rel)}})
                else:
                    shape = next((k for k in ("Rootrx", "Prefixsib", "Nested", "Exccls", "Newtype", "Condcls", "Privcls") if x["name"].lstrip("_").startswith(k)), "")
                    shape = "rawbuiltin" if x["name"].lower() in ("bytes", "object", "complex") else shape
                    shape = "samesuffix" if x["name"] == "Decimal" and "money" in rel else shape.lower()
                    refs.append({"name": x["name"], "pos": x["pos"], "tparam": x["tparam"],
                                 "kind": (shape or ("generic-foreign" if x["args"] else "foreign")) + ":" + x["pos"], "sc": {"t": None_T, "via": "def", "own": False, "second": []}})
        imports = []
        for frm, name, alias in f.imports:
            m = SFX.search(name)
            u = scen_by_id.get(int(m.group(1))) if m else None
            shape = next((k.lower() for k in ("Rootrx", "Prefixsib", "Nested", "Exccls", "Newtype", "Condcls", "Privcls") if name.lstrip("_").startswith(k)), "")
            shape = "samesuffix" if name == "Decimal" and "money" in rel else shape
            imports.append({"from": frm, "name": alias or name, "kind": "u3" if u else (shape or "foreign"),
                            "sc": {"t": u["t"], "via": u["via"], "own": False, "second": u.get("second", {}).get("segs") or []} if u else {"t": None_T, "via": "def", "own": False, "second": []}})
        files.append({"rel": rel, "package": f.package, "decls": decls, "imports": imports, "refs": refs})
    return {"files": files, "nc": nc, "unparsable": sorted(stubs.errors)}


None_T = {"kind": "class", "dname": "pubdecl", "stem": "pubmod", "place": "root", "reexp": {"form": "none", "at": 0, "alias": ""}}


def main(v: Verdict) -> None:
    us = generate(v, "Closure", "C11_MC.cfg" if TIER == "quick" else "C11_MC_thorough.cfg", min_records=200)
    if not us:
        return
    for k, u in enumerate(us):
        u["id"] = k + 1
    scen = {u["id"]: u for u in us}
    packs = []
    size = 40
    for c in range(0, len(us), size):
        root = f"clospk{c // size:03d}"
        files = {"__init__.py": ""}
        for u in us[c:c + size]:
            files.update(scenario_files(u, root))
        if c == 0:
            from pygen import FOREIGN_LIB, FOREIGN_LIB_USE
            files["formod.py"] = FOREIGN
            files["flibuse.py"] = FOREIGN_LIB_USE
            packs.append(write_pkg(files, root, siblings=FOREIGN_LIB))
            continue
        packs.append(write_pkg(files, root))
    packs.append(write_pkg(MISC, "clomisc"))
    jobs, meta = [], []
    for d in packs:
        for nc in ((False, True) if TIER == "thorough" or d.name == "clomisc" else (False,)):
            jobs.append({"src": d, "opts": Opts(nc=nc), "timeout": 600})
            meta.append((d.name, nc))
    if TIER == "quick":          # naming conversion on a sample of the packs
        for d in packs[::4]:
            jobs.append({"src": d, "opts": Opts(nc=True), "timeout": 600})
            meta.append((d.name, True))
    runs = run_many(jobs)
    obs = []
    for (name, nc), r in zip(meta, runs):
        if r.exit != "ok":
            v.extra.setdefault("unobservable", []).append({"pack": name, "nc": nc, "exit": r.exit, "exc": r.exc, "frame": r.frame, "msg": r.msg[:200]})
            continue
        o = run_obs(r, scen, nc)
        if o["unparsable"]:
            v.extra.setdefault("unparsable_stubs", []).extend(o["unparsable"][:3])
        obs.append({"id": f"{name}:{'nc' if nc else 'py'}", "obs": o})
    if not obs:
        v.machinery("no pack observable")
        return
    bad = judge(v, "C11_Trace", obs)
    v.add_bad(bad)
    v.samples = [{"run": o["id"], "file": o["obs"]["files"][0]} for o in obs[:2]]
    v.extra["scenarios_generated"] = len(us)
    v.extra["runs_judged"] = len(obs)
    v.extra["files_judged"] = sum(len(o["obs"]["files"]) for o in obs)
    v.assumptions += ["references and imports are resolved by the names written in the stubs", "stub parser harness/sds.py is hand-written"]
