"""C02 - every emitted stub file is syntactically valid Safe-DS (spec/SdsGrammar.tla, spec/Hostile.tla, spec/Ident.tla keyword table)."""
from __future__ import annotations

import glob
import keyword
import re

from common import REPO, TIER, SPEC, Verdict
from flow import generate, judge
from pygen import write_pkg
from runner import Opts, run_many
from tlc import run_tlc
import sds

STR_SYM = {"a": "a", "DQ": '"', "SQ": "'", "BS": "\\", "NL": "\n", "LB": "{{"}
DOC_SYM = {"a": "word", "NL": "\n", "CC": "*/", "OC": "/*", "AT": "@param x", "ST": "*"}


def keywords_from_spec() -> list[str]:
    txt = (SPEC / "Ident.tla").read_text()
    m = re.search(r"SdsKeywords == \{(.*?)\}", txt, re.S)
    return re.findall(r'"([^"]+)"', m.group(1))


def keyword_package(kws: list[str]) -> dict:
    legal = [k for k in kws if not keyword.iskeyword(k) and k not in ("None", "True", "False")]
    pub = [k for k in legal if k != "_"]
    dec = [k + "_" for k in kws if k != "_"] + ["my_" + k for k in ("val", "fun")]          # become the bare keyword (or contain it) under -nc
    names = pub + dec
    allp = legal + dec + ["_" + k for k in kws if k != "_"]
    f = {"__init__.py": ""}
    f["kcls.py"] = "\n".join(f"class {n}:\n    pass\n" for n in names)
    f["kfun.py"] = "\n".join(f"def {n}() -> int:\n    ...\n" for n in names)
    f["kmeth.py"] = "class Holder:\n" + "\n".join(f"    def {n}(self) -> int:\n        ...\n" for n in names)
    f["kattr.py"] = "class Holder:\n" + "\n".join(f"    {n}: int = 1" for n in names) + "\n"
    f["kprop.py"] = "class Holder:\n" + "\n".join(f"    @property\n    def {n}(self) -> int:\n        ...\n" for n in names)
    f["kparam.py"] = "\n".join(f"def pf{k}({n}: int) -> int:\n    ...\n" for k, n in enumerate(allp))
    f["kres.py"] = "\n".join(f'def rf{k}() -> int:\n    """Summary.\n\n    Returns\n    -------\n    {n} : int\n        The result.\n    """\n    ...\n' for k, n in enumerate(names))
    f["kenumm.py"] = "from enum import Enum\n\n\nclass Holder(Enum):\n" + "\n".join(f"    {n} = {k}" for k, n in enumerate(names)) + "\n"
    f["kenum.py"] = "from enum import Enum\n\n\n" + "\n".join(f"class {n}(Enum):\n    A = 1\n" for n in names)
    f["ktvar.py"] = "from typing import TypeVar\n\n" + "\n".join(f'{n} = TypeVar("{n}")\n\n\ndef tv{k}(a: {n}) -> {n}:\n    ...\n' for k, n in enumerate(pub))
    f["ktvarcls.py"] = "from typing import Generic, TypeVar\n\n" + "\n".join(
        f'{n} = TypeVar("{n}")\n\n\nclass G{k}(Generic[{n}]):\n    def m(self, a: {n}) -> {n}:\n        ...\n\n\nclass C{k}:\n    def __init__(self, a: {n}):\n        self.a = a\n'
        for k, n in enumerate(pub[:12]))
    f["kuse.py"] = "from kwpk.kcls import " + ", ".join(names) + "\n\n" + "\n".join(
        f"def use{k}(a: {n}) -> list[{n}]:\n    ...\n\n\nclass Sub{k}({n}):\n    pass\n" for k, n in enumerate(names))
    # names whose camelCase form would be empty or start with a digit
    # type forms around callables and null: a callable type has no nullable form of its own
    f["ktypes.py"] = ("from __future__ import annotations\nfrom typing import Callable, Literal, Optional, Union\n\n\n"
                      "def ty0(a: Optional[Callable[[int], None]] = None, b: Callable[[int], tuple[int, str]] | None = None, c: Optional[Callable[[], int]] = None,\n"
                      "        d: Union[Callable[[int], None], None, int] = None, e: Optional[Callable[..., None]] = None) -> Optional[Callable[[str], None]]:\n    ...\n\n\n"
                      "class TyHolder:\n    hook: Optional[Callable[[str, int], None]] = None\n    pair: Optional[tuple[int, str]] = None\n    lit: Optional[Literal[\"a\", 1]] = None\n\n"
                      "    def __init__(self, cb: Optional[Callable[[int], None]] = None):\n        self.cb: Optional[Callable[[int], None]] = cb\n\n"
                      "    @property\n    def prop(self) -> Optional[Callable[[int], None]]:\n        ...\n")
    f["kdigit.py"] = "def dg0(_1: int, _1x: int, __: int, a_1: int, _9_: int) -> int:\n    ...\n\n\nclass DHolder:\n    x_1_: int = 1\n    a__2: int = 2\n"
    for n in ("val", "fun", "attr", "sub", "out", "this", "val_"):       # module / package path segments
        f[f"{n}.py"] = "def inmod() -> int:\n    ...\n"
    # classes of other libraries whose top-level module / package is called like a keyword: one-segment paths in imports and placeholder stubs
    f["kforeign.py"] = ("import enum\nfrom schema import Table\nfrom pipeline.val import Step\nfrom pipeline._1st_mod import DigitCls\n\n\n"
                        "def uses_foreign(m: enum.Enum, t: Table, s: Step, d: DigitCls) -> enum.IntEnum:\n    ...\n")
    for n in ("internal", "segment_", "literal"):
        f[f"{n}/__init__.py"] = ""
        f[f"{n}/leaf.py"] = "def inpkg() -> int:\n    ...\n"
    return f


def text_of(syms, table) -> str:
    return "".join(table[s] for s in syms)


def string_package(texts) -> dict:
    L = ["from typing import Literal", ""]
    for k, t in enumerate(texts):
        s = text_of(t, STR_SYM)
        L += [f"def sd{k}(a: str = {s!r}) -> int:", "    ...", ""]
        if s:
            L += [f"def sl{k}(a: Literal[{s!r}], b: Literal[{s!r}, 1] | None = None) -> Literal[{s!r}]:", "    ...", ""]
    return {"__init__.py": "", "strmod.py": "\n".join(L)}


def doc_package(texts, style) -> dict:
    L = []
    for k, t in enumerate(texts):
        s = text_of(t, DOC_SYM)
        body = f"Summary {k}.\n\n{s}\n"
        if style == "NUMPYDOC":
            body += f"\nParameters\n----------\nx : int\n    About x {s.splitlines()[0] if s.splitlines() else ''}\n"
        elif style == "GOOGLE":
            body += f"\nArgs:\n    x (int): About x {s.splitlines()[0] if s.splitlines() else ''}\n"
        elif style == "REST":
            body += f"\n:param x: About x {s.splitlines()[0] if s.splitlines() else ''}\n"
        ind = "\n".join(("    " + ln) if ln else "" for ln in body.splitlines())
        L += [f"def dd{k}(x: int) -> int:", f'    r"""{ind.strip()}', '    """', "    ...", "", f"class DC{k}:", f'    r"""{ind.strip()}', '    """', "", f"    at: int = {k}", ""]
    files = {"__init__.py": "", "docmod.py": '"""Module doc */ with a closer."""\n\n' + "\n".join(L)}
    # names and types that only the docstring supplies: an unknown bare type name, defaults written as text, result names with stars / keywords
    if style == "NUMPYDOC":
        files["docnames.py"] = ('def dn0(x, y="abc", z=1.0, w=None):\n    """Summary.\n\n    Parameters\n    ----------\n    x : ndarray\n        An array.\n'
                                '    y : str, default=\'abc\'\n        Text.\n    z : float, default=np.nan\n        Float.\n    w : a.b.Thing or None\n        Dotted.\n\n'
                                '    Returns\n    -------\n    *out : int\n        Star.\n    **kw : str\n        Stars.\n    val : int\n        Keyword.\n    """\n    return 1\n')
    elif style == "GOOGLE":
        files["docnames.py"] = ('def dn0(x, y="abc"):\n    """Summary.\n\n    Args:\n        x (ndarray): An array.\n        y (str, optional): Text. Defaults to \'abc\'.\n\n'
                                '    Returns:\n        ndarray: The result.\n    """\n    return 1\n')
    elif style == "REST":
        files["docnames.py"] = ('def dn0(x, y="abc"):\n    """Summary.\n\n    :param ndarray x: An array.\n    :param y: Text.\n    :type y: some.Thing\n    :returns: The result.\n    :rtype: ndarray\n    """\n    return 1\n')
    return files


def main(v: Verdict) -> None:
    r = run_tlc("SdsGrammar", "C02_MC.cfg", workers=4, timeout=600)
    v.add_tlc(r)
    if not r["ok"]:
        v.machinery(f"recogniser self-check failed: {r['errors'][:3]}")
        return
    texts = generate(v, "Hostile", "C02b_MC.cfg", min_records=100)
    strs = [t["text"] for t in texts if t["kind"] == "string"]
    docs = [t["text"] for t in texts if t["kind"] == "doc"]
    kws = keywords_from_spec()
    jobs, meta = [], []
    kp = write_pkg(keyword_package(kws), "kwpk", siblings={"schema": {"__init__.py": "class Table:\n    pass\n"},
                                                          "pipeline": {"__init__.py": "", "val.py": "class Step:\n    pass\n", "_1st_mod.py": "class DigitCls:\n    pass\n"}})
    for nc in (False, True):
        jobs.append({"src": kp, "opts": Opts(docstyle="NUMPYDOC", nc=nc), "timeout": 600})
        meta.append(f"keywords-{'nc' if nc else 'py'}")
    jobs.append({"src": write_pkg(string_package(strs), "strpk"), "opts": Opts(), "timeout": 600})
    meta.append("strings")
    for style in ("PLAINTEXT", "NUMPYDOC", "GOOGLE", "REST"):
        jobs.append({"src": write_pkg(doc_package(docs, style), "docpk" + style.lower()[:3]), "opts": Opts(docstyle=style), "timeout": 600})
        meta.append(f"docstrings-{style}")
    runs = run_many(jobs)
    obs = []
    # calibration: the upstream snapshot stubs must be accepted
    for p in sorted(glob.glob(str(REPO / "tests/safeds_stubgen/stubs_generator/__snapshots__/test_generate_stubs/*.sdsstub"))):
        obs.append({"id": "snapshot:" + p.split("/")[-1], "kind": "calibration-snapshot", "toks": sds.token_classes(sds.lex(open(p).read()))})
    disagreements = []
    for kind, run in zip(meta, runs):
        if run.exit != "ok":
            v.extra.setdefault("unobservable", []).append({"corpus": kind, "exit": run.exit, "exc": run.exc, "frame": run.frame, "msg": run.msg[:200]})
            continue
        for rel, text in sorted(run.stubs.items()):
            toks = [t for t in sds.token_classes(sds.lex(text)) if t != "DOC"]
            obs.append({"id": f"{kind}:{rel}", "kind": f"{kind}:{rel.split('/')[-1].replace('.sdsstub', '')}", "toks": toks, "_py_ok": sds.try_parse(text)[0] is not None})
    for o in obs:
        o["toks"] = [t for t in o["toks"] if t != "DOC"]
    bad = judge_c02(v, obs)
    # cross-check with the Python parser (DESIGN 3.2): a disagreement is a machinery failure, not a verdict
    rejected = {b["subject"] for b in bad}
    for o in obs:
        if "_py_ok" in o and (o["id"] in rejected) == o["_py_ok"]:
            disagreements.append(o["id"])
    if disagreements:
        v.machinery(f"TLA+ recogniser and Python parser disagree on {len(disagreements)} files, e.g. {disagreements[:3]}")
    v.add_bad(bad)
    v.samples = [{"file": o["id"], "tokens": o["toks"][:25]} for o in obs[44:47]]
    v.extra["files_judged"] = len(obs)
    v.extra["tokens_judged"] = sum(len(o["toks"]) for o in obs)
    v.extra["keywords"] = len(kws)
    v.assumptions += ["'valid Safe-DS' means accepted by spec/SdsGrammar.tla, which accepts all 44 upstream snapshot stubs (no reference parser is available offline)",
                      "raw newlines and '{{' inside string literals are accepted (uncertain in the reference grammar)"]


def judge_c02(v, obs):
    from common import fresh_dir
    from tlc import write_json
    d = fresh_dir("obs")
    f = write_json(d / "obs.json", [{"id": o["id"], "kind": o["kind"], "toks": o["toks"]} for o in obs])
    r = run_tlc("C02_Trace", "C02_Trace.cfg", workers=1, env={"OBS_FILE": str(f)}, timeout=1800)
    v.add_tlc(r)
    if not r["ok"]:
        v.machinery(f"trace validation C02_Trace failed: {r['errors'][:3]}")
        return []
    v.traces += len(obs)
    out = []
    for rec in r["records"]:
        if isinstance(rec, dict):
            for b in rec.get("bad", []):
                b = dict(b)
                b["subject"] = rec.get("id")
                out.append(b)
    return out
