"""C07 - results mirror the return annotation, or soundly cover inferred returns (spec/Results.tla)."""
from __future__ import annotations

from checks.c05 import py
from common import TIER, Verdict
from facts import Stubs, type_term
from flow import generate, judge
from pygen import write_pkg
from runner import Opts, run_many

LEAF_SRC = ["1", "1.5", '"s"', "True", "None", '(1, "s")', "(1, 2.5, None)", "-1", '("t", 2)', "", "(1, 2)"]
HEAD = '''from __future__ import annotations
from typing import Any, Callable, Literal, Optional, Union


class LocCls:
    pass

'''
DOCNAMES = ["alpha", "beta", "gamma"]


def body_src(body, ind="    ") -> list[str]:
    out = []
    for s in body:
        k = s["k"]
        if k == "ret":
            out.append(f"{ind}return {LEAF_SRC[s['v'] - 1]}".rstrip())
            continue
        b = s["b"]
        sub = lambda j: body_src(b[j], ind + "    ")  # noqa: E731
        if k == "if":
            out += [f"{ind}if c:"] + sub(0) + [f"{ind}else:"] + sub(1)
        elif k == "ifonly":
            out += [f"{ind}if c:"] + sub(0)
        elif k == "ifelif":
            out += [f"{ind}if c:"] + sub(0) + [f"{ind}elif d:"] + sub(1) + [f"{ind}else:"] + sub(2)
        elif k == "tryelse":
            out += [f"{ind}try:"] + sub(0) + [f"{ind}except Exception:"] + sub(1) + [f"{ind}else:"] + sub(2)
        elif k == "tryfinally":
            out += [f"{ind}try:"] + sub(0) + [f"{ind}finally:"] + sub(1)
        elif k == "forelse":
            out += [f"{ind}for _ in range(c):"] + sub(0) + [f"{ind}else:"] + sub(1)
        elif k == "whileelse":
            out += [f"{ind}while c:"] + sub(0) + [f"{ind}else:"] + sub(1)
        elif k == "cond3":
            out.append(f"{ind}return {LEAF_SRC[b[0][0]['v'] - 1]} if c else ({LEAF_SRC[b[1][0]['v'] - 1]} if d else {LEAF_SRC[b[2][0]['v'] - 1]})")
        elif k == "cond3l":
            out.append(f"{ind}return ({LEAF_SRC[b[0][0]['v'] - 1]} if c else {LEAF_SRC[b[1][0]['v'] - 1]}) if d else {LEAF_SRC[b[2][0]['v'] - 1]}")
        elif k == "cond4":
            out.append(f"{ind}return ({LEAF_SRC[b[0][0]['v'] - 1]} if c else {LEAF_SRC[b[1][0]['v'] - 1]}) if d else ({LEAF_SRC[b[2][0]['v'] - 1]} if c else {LEAF_SRC[b[3][0]['v'] - 1]})")
        elif k == "try":
            out += [f"{ind}try:"] + sub(0) + [f"{ind}except Exception:"] + sub(1)
        elif k == "for":
            out += [f"{ind}for _ in range(c):"] + sub(0)
        elif k == "while":
            out += [f"{ind}while c:"] + sub(0)
        elif k == "with":
            out += [f"{ind}with open(str(c)) as fh:"] + sub(0)
        elif k == "match":
            out += [f"{ind}match c:", f"{ind}    case 1:"] + body_src(b[0], ind + "        ") + [f"{ind}    case _:"] + body_src(b[1], ind + "        ")
        elif k == "nesteddef":
            out += [f"{ind}def inner_h():"] + sub(0) + [f"{ind}inner_h()"]
        elif k == "nestedclass":
            out += [f"{ind}class InnerK:", f"{ind}    def m(self):"] + body_src(b[0], ind + "        ") + [f"{ind}InnerK()"]
        elif k == "lambda":
            out += [f"{ind}f_h = lambda: ({LEAF_SRC[b[0][0]['v'] - 1]})  # noqa: E731", f"{ind}f_h()"]
        elif k == "cond":
            out.append(f"{ind}return {LEAF_SRC[b[0][0]['v'] - 1]} if c else {LEAF_SRC[b[1][0]['v'] - 1]}")
        else:
            raise ValueError(k)
    return out or [f"{ind}pass"]


def elem_types(t):
    u = t
    while u["k"] == "Alias":
        u = u["a"][0]
    if u["k"] == "tuple":
        return [py(x) for x in u["a"]]
    return [py(u)]


def docstring(sc) -> str:
    style, n, named = sc["style"], sc["ndoc"], sc["named"]
    if n == 0:
        return '    """Summary line."""'
    tys = elem_types(sc["ret"]) if sc["mode"] == "ann" else []
    ty = lambda i: tys[i] if i < len(tys) else "int"  # noqa: E731
    if style == "NUMPYDOC":
        lines = ['    """Summary line.', "", "    Returns", "    -------"]
        for i in range(n):
            lines.append(f"    {DOCNAMES[i]} : {ty(i)}" if named else f"    {ty(i)}")
            lines.append(f"        Description {i + 1}.")
        lines.append('    """')
        return "\n".join(lines)
    if style == "GOOGLE":
        return f'    """Summary line.\n\n    Returns:\n        {ty(0)}: Description 1.\n    """'
    if style == "REST":
        return f'    """Summary line.\n\n    :return: Description 1.\n    :rtype: {ty(0)}\n    """'
    return '    """Summary line."""'


def concretise(scs) -> str:
    out = [HEAD]
    for sc in scs:
        i = sc["id"]
        if sc["mode"] == "ann":
            defs: list = []
            ann = py(sc["ret"], defs, str(i))
            out.append("".join(d + "\n" for d in defs) + ("\n\n" if defs else "") + f"def a{i}() -> {ann}:\n{docstring(sc)}\n    ...\n\n")
        else:
            doc = (docstring(sc) + "\n") if sc["ndoc"] else ""
            sig = "c: int = 0, d: int = 0" if sc["mode"] == "infp" else "c=0, d=0"
            out.append(f"def g{i}({sig}):\n" + doc + "\n".join(body_src(sc["body"])) + "\n\n")
    return "\n".join(out)


def observe(sc, stubs: Stubs) -> dict:
    name = ("a" if sc["mode"] == "ann" else "g") + str(sc["id"])
    tops = stubs.top(name)
    if len(tops) != 1 or tops[0][1].kind != "fun":
        return {"missing": True, "res": []}
    return {"missing": False, "res": [{"name": r["pyname"], "ty": type_term(r["type"])} for r in tops[0][1].results]}


def main(v: Verdict) -> None:
    scs = generate(v, "Results", "C07_MC.cfg" if TIER == "quick" else "C07_MC_thorough.cfg", min_records=500)
    if not scs:
        return
    for k, sc in enumerate(scs):
        sc["id"] = k + 1
    groups: dict[str, list] = {}
    for sc in scs:
        groups.setdefault(sc["style"], []).append(sc)
    jobs, order = [], []
    for style, g in sorted(groups.items()):
        size = 4000
        for c in range(0, len(g), size):
            pkg = f"respk{style.lower()[:4]}{c // size}"
            d = write_pkg({"__init__.py": "", "resmod.py": concretise(g[c:c + size])}, pkg)
            jobs.append({"src": d, "opts": Opts(docstyle=style), "timeout": 900})
            order.append(g[c:c + size])
    runs = run_many(jobs)
    obs = []
    for g, r in zip(order, runs):
        if r.exit != "ok":
            v.extra.setdefault("unobservable", []).append({"pack": str(r.src), "exit": r.exit, "exc": r.exc, "frame": r.frame, "msg": r.msg})
            continue
        stubs = Stubs(r)
        for sc in g:
            obs.append({"id": sc["id"], "sc": {k: sc[k] for k in ("mode", "ret", "style", "ndoc", "named", "body")}, "obs": observe(sc, stubs)})
    if len(obs) < len(scs) // 2:
        v.machinery(f"only {len(obs)} of {len(scs)} scenarios observable")
    bad = judge(v, "C07_Trace", obs)
    by_id = {o["id"]: o for o in obs}
    for b in bad:
        o = by_id.get(b.get("subject"))
        if o:
            b["python"] = concretise([dict(o["sc"], id=0)])[len(HEAD):]
    v.add_bad(bad)
    v.samples = [{"python": concretise([dict(o["sc"], id=0)])[len(HEAD):], "observed": o["obs"]} for o in obs[:: max(1, len(obs) // 3)]][:3]
    v.extra["scenarios_generated"] = len(scs)
    v.extra["scenarios_replayed"] = len(obs)
    v.assumptions += ["stub parser harness/sds.py is hand-written (calibrated on 44 upstream snapshots)", "mypy 1.20.2",
                      "try/else/finally and loop-else returns are outside the quantifier and not generated",
                      "result names are judged only when the number of docstring entries equals the number of results"]
