"""C16 - stub generation neither mutates the API model nor depends on earlier generations (spec/RunHistory.tla)."""
from __future__ import annotations

import json
import os
import subprocess
from concurrent.futures import ThreadPoolExecutor
from pathlib import Path

from common import NCPU, PY, Verdict, fresh_dir, sha
from flow import generate, judge
from pygen import write_pkg
from runner import Opts, run_cli

CHILD = str(Path(__file__).resolve().parent.parent / "_replay16.py")


def package(features: list[str], k: int) -> Path:
    f = set(features)
    main = ["from __future__ import annotations", "from typing import Literal", "from pathlib import Path, PurePath", "from decimal import Decimal",
            "from email.parser import Parser", "from html.parser import HTMLParser", "from collections import OrderedDict, deque", "from collections.abc import Sized", "", ""]
    main += ["def plain(a: int) -> int:", "    ...", ""]
    if "literal-none" in f:
        main += ['def lit(x: Literal["z"] | None = None, y: Literal[1, 2] | None = None) -> int:', "    ...", "",
                 "class LitHolder:", '    def m(self, x: Literal["a", "b"] | None) -> Literal["q"] | None:', "        ...", ""]
    if "varargs-tuple" in f:
        main += ["def va(*args: int, **kw: str) -> int:", "    ...", "", "class VaHolder:", "    def m(self, *rest: str) -> tuple[int, str]:", "        ...", ""]
    if "foreign" in f:
        main += ["def fo(p: Path, q: PurePath, a: Parser, b: HTMLParser) -> Decimal:", "    ...", "",
                 "def fo2(o: OrderedDict[str, int], s: Sized, d: deque[int]) -> int:", "    ...", ""]
    if "inherited-twice" in f:
        main += ["class _Base:", '    def shared(self, a: Literal["z"] | None = None, *more: int) -> int:', "        ...", "",
                 "class SubA(_Base):", "    pass", "", "class SubB(_Base):", "    pass", "",
                 "class PubX:", "    pass", "", "class PubY:", "    pass", "",
                 "class SubC(PubX, PubY, _Base):", "    pass", "", "class SubD(_Base, PubX, PubY):", "    def own(self) -> int:", "        ...", ""]
    files = {"__init__.py": "", "mainmod.py": "\n".join(main)}
    if "inherited-twice" in f:
        # a generic chain: the middle class has a generic nested class of its own
        files["genmod.py"] = ("from typing import Generic, TypeVar\n\nT = TypeVar(\"T\")\nU = TypeVar(\"U\")\n\n\n"
                              "class _Root(Generic[T]):\n    def gshared(self, x: T) -> T:\n        ...\n\n\n"
                              "class _Mid(_Root[T], Generic[T]):\n    class Inner(Generic[U]):\n        def other(self, u: U) -> U:\n            ...\n\n\n"
                              "class GenA(_Root[T], Generic[T]):\n    pass\n\n\nclass GenB(_Mid[T], Generic[T]):\n    pass\n\n\n"
                              "class GenC(_Mid[T], Generic[T]):\n    class Own(Generic[U]):\n        def mine(self, u: U) -> U:\n            ...\n")
    if "alias-reexport" in f:
        files["__init__.py"] = "from .inner._impl import Hidden as Shown\nfrom .inner._impl import helper as shown_helper\n"
        files["inner/__init__.py"] = ""
        files["inner/_impl.py"] = "class Hidden:\n    def m(self, a: int) -> int:\n        ...\n\n\ndef helper(a: int) -> int:\n    ...\n"
        files["user.py"] = "from histpkXX.inner._impl import Hidden\n\n\ndef use(h: Hidden) -> int:\n    ...\n"
    if "two-reexporters" in f:
        files["core/__init__.py"] = ""
        files["core/geometry/__init__.py"] = "from .impl import Circle, area\n"
        files["core/geometry/impl.py"] = "class Circle:\n    def r(self) -> int:\n        ...\n\n\ndef area(c: Circle) -> int:\n    ...\n"
        files["facade/__init__.py"] = "from histpkXX.core.geometry.impl import Circle, area\n"
        files["facade/fill.py"] = "def fill() -> int:\n    ...\n"
    if "abstract-class" in f:
        files["absmod.py"] = ("from abc import ABC, abstractmethod\n\n\nclass Shape(ABC):\n    def __init__(self, name: str):\n        self.name = name\n\n"
                              "    @abstractmethod\n    def area(self) -> int:\n        ...\n\n\nclass PubBase:\n    pass\n\n\nclass Mixed(PubBase, ABC):\n    def __init__(self, depth: int):\n        ...\n\n\n"
                              "class _Holder:\n    class Visitor(ABC):\n        def __init__(self, depth: int):\n            ...\n\n        def visit(self) -> int:\n            ...\n\n\n"
                              "class HoldA(_Holder):\n    pass\n\n\nclass HoldB(_Holder):\n    pass\n")
    if "package-newtype" in f:
        files["accounts.py"] = ("from typing import NewType\n\nAccountId = NewType(\"AccountId\", int)\n\n\ndef new_account(name: str) -> AccountId:\n    ...\n\n\n"
                                "def close_account(account: AccountId) -> bool:\n    ...\n")
        files["ledger.py"] = "from histpkXX.accounts import AccountId\n\n\ndef balance(account: AccountId) -> float:\n    ...\n"
        files["zledger.py"] = "from histpkXX.accounts import AccountId\n\n\ndef zbalance(account: AccountId) -> float:\n    ...\n"
    root = f"histpk{k:02d}"
    files = {p: t.replace("histpkXX", root) for p, t in files.items()}
    return write_pkg(files, root)


def tree_digest(r) -> str:
    return sha(json.dumps(sorted(r.files.items())))


def main(v: Verdict) -> None:
    hs = generate(v, "RunHistory", "C16_MC.cfg", min_records=20)
    if not hs:
        return
    pkgs = {}
    for h in hs:
        key = tuple(sorted(h["pkg"]))
        if key not in pkgs:
            pkgs[key] = package(list(key), len(pkgs))

    def replay(h):
        work = fresh_dir("rp")
        outp = work / "rec.json"
        env = dict(os.environ, PYTHONHASHSEED="0")
        subprocess.run([PY, CHILD, str(pkgs[tuple(sorted(h["pkg"]))]), json.dumps(h["hist"]), str(outp)], cwd=str(work), env=env, capture_output=True, timeout=600)
        return json.loads(outp.read_text()) if outp.exists() else {"error": "no record", "api": [], "texts": [], "dupfiles": [], "same": []}
    with ThreadPoolExecutor(max_workers=NCPU) as ex:
        recs = list(ex.map(replay, hs))
    obs = []
    for k, (h, rec) in enumerate(zip(hs, recs)):
        if rec.get("error"):
            v.extra.setdefault("unobservable", []).append({"history": h, "error": rec["error"][:300]})
            continue
        obs.append({"id": f"replay:{k}", "kind": "replay", "obs": {"pkg": sorted(h["pkg"]), "hist": h["hist"], "api": rec["api"], "texts": rec["texts"],
                                                                    "dupfiles": rec["dupfiles"], "same": rec["same"]}})
    # repeated CLI runs into one output directory
    def reruns(item):
        key, d = item
        out = fresh_dir("rr") / "out"
        r1 = run_cli(d, Opts(), out=out)
        r2 = run_cli(d, Opts(), out=out)
        r3 = run_cli(d, Opts())
        return key, r1, r2, r3
    with ThreadPoolExecutor(max_workers=NCPU) as ex:
        for key, r1, r2, r3 in ex.map(reruns, pkgs.items()):
            if any(r.exit != "ok" for r in (r1, r2, r3)):
                v.extra.setdefault("unobservable", []).append({"rerun": list(key), "exits": [r.exit for r in (r1, r2, r3)], "exc": r1.exc or r2.exc, "frame": r1.frame or r2.frame})
                continue
            obs.append({"id": f"rerun:{'+'.join(key)}", "kind": "rerun", "obs": {"pkg": list(key), "first": tree_digest(r1), "second": tree_digest(r2), "fresh": tree_digest(r3)}})
    if not obs:
        v.machinery("nothing observable")
        return
    bad = judge(v, "C16_Trace", obs)
    v.add_bad(bad)
    v.samples = [obs[0], obs[-1]]
    v.extra["histories_replayed"] = sum(1 for o in obs if o["kind"] == "replay")
    v.extra["rerun_triples"] = sum(1 for o in obs if o["kind"] == "rerun")
    v.assumptions += ["the API model is observed through API.to_dict() before and after every generation", "each history starts from a freshly analysed API object in its own process"]
