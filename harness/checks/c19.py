"""C19 - API type values obey round-trip, equality and hashing laws (spec/ApiTypes.tla). In-process replay on the real classes."""
from __future__ import annotations

from common import TIER, Verdict
from flow import generate, judge


def build(t):
    import safeds_stubgen.api_analyzer._types as ty
    k, n, a, v = t["k"], t["n"], t["a"], t["v"]
    sub = [build(x) for x in a]
    if k == "UnknownType":
        return ty.UnknownType()
    if k == "NamedType":
        return ty.NamedType(n, "pkg." + n)
    if k == "NamedSequenceType":
        return ty.NamedSequenceType(n, "pkg." + n, sub)
    if k == "EnumType":
        return ty.EnumType(frozenset(v))
    if k == "BoundaryType":
        def num(x):
            return x if x in ("Infinity", "NegativeInfinity") else (int(x) if n == "int" else float(x))
        return ty.BoundaryType(n, num(v[0]), num(v[1]), v[2] == "in", v[3] == "in")
    if k == "LiteralType":
        vals = []
        for x in v:
            tag, val = x.split(":", 1)
            vals.append(int(val) if tag == "i" else (val == "true") if tag == "b" else None if tag == "n" else val)
        return ty.LiteralType(vals)
    if k in ("ListType", "SetType", "TupleType", "UnionType"):
        return getattr(ty, k)(sub)
    if k == "DictType":
        return ty.DictType(sub[0], sub[1])
    if k == "FinalType":
        return ty.FinalType(sub[0])
    if k == "CallableType":
        return ty.CallableType(sub[:-1], sub[-1])
    if k == "TypeVarType":
        return ty.TypeVarType(n, sub[0] if sub else None)
    raise ValueError(k)


def tri(f) -> str:
    try:
        return "true" if f() else "false"
    except Exception as e:  # noqa: BLE001  an exception is a failed law, named
        return "exc:" + type(e).__name__


def exercise(pa, pb) -> dict:
    import safeds_stubgen.api_analyzer._types as ty
    a, b = build(pa), build(pb)
    o = {}
    box = {}

    def rt():
        box["d1"] = a.to_dict()
        box["t2"] = ty.AbstractType.from_dict(box["d1"])
        return box["t2"] == a
    o["rt"] = tri(rt)
    o["stable"] = tri(lambda: box["t2"].to_dict() == box["d1"]) if "t2" in box else "exc:NoValue"
    o["hash_rt"] = tri(lambda: hash(box["t2"]) == hash(a)) if "t2" in box else "exc:NoValue"
    o["refl"] = tri(lambda: a == a)
    o["eq_ab"] = tri(lambda: a == b)
    o["eq_ba"] = tri(lambda: b == a)
    o["hash_eq"] = tri(lambda: hash(a) == hash(b))
    return o


def main(v: Verdict) -> None:
    pairs = generate(v, "ApiTypes", "C19_MC.cfg" if TIER == "quick" else "C19_MC_thorough.cfg", min_records=1000, timeout=900)
    if not pairs:
        return
    obs = [{"id": k, "sc": p, "obs": exercise(p["a"], p["b"])} for k, p in enumerate(pairs)]
    bad = judge(v, "C19_Trace", obs, chunk=15000)
    by_id = {o["id"]: o for o in obs}
    for b in bad:
        o = by_id.get(b.get("subject"))
        if o:
            b["pair"] = o["sc"]
            b["logged"] = o["obs"]
    v.add_bad(bad)
    v.samples = obs[:: max(1, len(obs) // 3)][:3]
    v.extra["pairs_replayed"] = len(obs)
    v.assumptions += ["laws are evaluated on logged results of the real classes; the spec's own Eq is used only to choose related pairs"]
