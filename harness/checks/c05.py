"""C05 - type hints are translated faithfully and compositionally (spec/PyTypes.tla)."""
from __future__ import annotations

from common import NCPU, TIER, Verdict
from facts import Stubs, member, type_term
from flow import generate, judge
from pygen import write_pkg
from runner import Opts, run_many

NAMES = {"Loc": "LocCls", "Oth": "OthCls", "Col": "ColEnum", "TV": "TVar", "TVS": "TSelf"}
HEADER = '''from __future__ import annotations
from typing import Any, Callable, Collection, Final, Generic, Literal, Mapping, Optional, Sequence, TypeVar, Union
from enum import Enum
from {pkg}.othmod import OthCls

TVar = TypeVar("TVar")


class LocCls:
    pass


TSelf = TypeVar("TSelf", bound="LocCls")


class ColEnum(Enum):
    RED = 1


class GenCls(Generic[TVar]):
    pass


KVar = TypeVar("KVar")


class PairCls(Generic[KVar, TVar]):
    pass


def _anyv() -> Any:
    ...

'''
OTH = "class OthCls:\n    pass\n"


def py(t: dict, defs: list | None = None, uid: str = "") -> str:
    """Python spelling of a term; the module-level alias definitions it needs are appended to `defs`."""
    defs = [] if defs is None else defs
    k, a = t["k"], t["a"]

    def rec(x):
        return py(x, defs, uid)
    if k == "Alias":
        inner = rec(a[0])      # an alias is defined before the alias that uses it
        name = f"Al{uid}x{len(defs)}"
        defs.append(f"{name} = {inner}")
        return name
    if k == "VarTuple":
        return f"tuple[{rec(a[0])}, ...]"
    if k in ("int", "str", "bool", "float", "None", "Any"):
        return k
    if k in NAMES:
        return NAMES[k]
    if k in ("list", "Sequence", "Collection", "set", "Optional", "dict", "Mapping", "tuple", "Union"):
        return f"{k}[{', '.join(rec(x) for x in a)}]"
    if k == "OrNone":
        return f"{rec(a[0])} | None"
    if k == "Or":
        return " | ".join(rec(x) for x in a)
    if k == "Gen":
        return f"GenCls[{rec(a[0])}]"
    if k == "Gen2":
        return f"PairCls[{rec(a[0])}, {rec(a[1])}]"
    if k == "Literal":
        vals = []
        for ty, v in t["l"]:
            vals.append({"str": lambda: f'"{v}"', "int": lambda: v, "bool": lambda: v.capitalize(), "none": lambda: "None"}[ty]())
        return f"Literal[{', '.join(vals)}]"
    if k == "Callable":
        return f"Callable[[{', '.join(rec(x) for x in a[:-1])}], {rec(a[-1])}]"
    raise ValueError(k)


def concretise(terms, pkg) -> str:
    out = [HEADER.format(pkg=pkg)]
    for t in terms:
        i, defs = t["id"], []
        s = py(t, defs, str(i))
        out.append("\n".join(defs) + "\n")
        out.append(f"def fp{i}(x: {s}): ...\n\n\ndef fr{i}() -> {s}: ...\n\n\n"
                   f"class K{i}:\n    ca: {s}\n\n    def __init__(self, x: {s}):\n        self.ia: {s} = x\n        self.fi: Final[{s}] = x\n\n    cf: Final[{s}] = _anyv()\n\n    @property\n    def pr(self) -> {s}:\n        ...\n\n\n"
                   # the same parameter seen through a private base class in two public subclasses (one type value, rendered twice)
                   f"class _PB{i}:\n    def inh(self, x: {s}):\n        ...\n\n\nclass PSa{i}(_PB{i}):\n    pass\n\n\nclass PSb{i}(_PB{i}):\n    pass\n\n")
    return "\n".join(out)


def observe(t, stubs: Stubs) -> dict:
    i = t["id"]
    pos = []

    def add(name, tys, missing=False):
        pos.append({"pos": name, "missing": missing, "tys": tys})

    fp = stubs.top(f"fp{i}")
    if len(fp) == 1 and fp[0][1].params and len(fp[0][1].params) == 1:
        add("param", [type_term(fp[0][1].params[0]["type"])])
    else:
        add("param", [], True)
    fr = stubs.top(f"fr{i}")
    if len(fr) == 1 and fr[0][1].kind == "fun":
        add("result", [type_term(r["type"]) for r in fr[0][1].results])
    else:
        add("result", [], True)
    k = stubs.top(f"K{i}")
    if len(k) == 1 and k[0][1].kind == "class":
        c = k[0][1]
        if c.params and len(c.params) == 1:
            add("ctorparam", [type_term(c.params[0]["type"])])
        else:
            add("ctorparam", [], True)
        for nm, label in (("ca", "classattr"), ("ia", "instattr"), ("pr", "property"), ("cf", "final-classattr"), ("fi", "final-instattr")):
            m = member(c, nm, "attr")
            if m is None:
                add(label, [], True)
            else:
                add(label, [type_term(m.type)])
    else:
        for label in ("ctorparam", "classattr", "instattr", "property", "final-classattr", "final-instattr"):
            add(label, [], True)
    for cname, label in ((f"PSa{i}", "inherited-first"), (f"PSb{i}", "inherited-second")):
        kk = stubs.top(cname)
        m = member(kk[0][1], "inh", "fun") if len(kk) == 1 and kk[0][1].kind == "class" else None
        if m is not None and m.params and len(m.params) == 1:
            add(label, [type_term(m.params[0]["type"])])
        else:
            add(label, [], True)
    return {"pos": pos}


def main(v: Verdict) -> None:
    cfg = "C05_MC.cfg" if TIER == "quick" else "C05_MC_thorough.cfg"
    terms = generate(v, "PyTypes", cfg, min_records=500)
    if not terms:
        return
    for k, t in enumerate(terms):
        t["id"] = k + 1
    nchunks = NCPU if TIER == "quick" else 2 * NCPU
    size = (len(terms) + nchunks - 1) // nchunks
    chunks = [terms[i:i + size] for i in range(0, len(terms), size)]
    jobs = []
    for c, ch in enumerate(chunks):
        pkg = f"typk{c:02d}x"
        d = write_pkg({"__init__.py": "", "othmod.py": OTH, "tymod.py": concretise(ch, pkg)}, pkg)
        jobs.append({"src": d, "opts": Opts(), "timeout": 900})
    runs = run_many(jobs)
    obs = []
    for ch, r in zip(chunks, runs):
        if r.exit != "ok":
            v.extra.setdefault("unobservable", []).append({"pack": str(r.src), "exit": r.exit, "exc": r.exc, "frame": r.frame, "msg": r.msg})
            continue
        stubs = Stubs(r)
        for t in ch:
            obs.append({"id": t["id"], "sc": {"k": t["k"], "a": t["a"], "l": t["l"]}, "obs": observe(t, stubs)})
    if len(obs) < len(terms) // 2:
        v.machinery(f"only {len(obs)} of {len(terms)} terms observable")
    bad = judge(v, "C05_Trace", obs)
    by_id = {o["id"]: o for o in obs}
    for b in bad:
        o = by_id.get(b.get("subject"))
        if o:
            defs: list = []
            ann = py(o["sc"], defs, str(o["id"]))
            b["annotation"] = "; ".join([*defs, ann])
    v.add_bad(bad)
    v.samples = [{"annotation": py(o["sc"]), "observed": o["obs"]} for o in obs[:: max(1, len(obs) // 3)]][:3]
    v.extra["scenarios_generated"] = len(terms)
    v.extra["scenarios_replayed"] = len(obs)
    v.extra["positions"] = ["param", "result", "ctorparam", "classattr", "instattr"]
    v.assumptions += ["stub parser harness/sds.py is hand-written (calibrated on 44 upstream snapshots)", "mypy 1.20.2",
                      "bare generics and variadic tuples are outside the mapping table of the statement and are not generated"]
