"""C09 - naming conversion renames consistently and keeps Python names recoverable (spec/Ident.tla)."""
from __future__ import annotations

import json
import keyword

from common import TIER, Verdict, sha
from facts import Stubs, type_term
from flow import generate, judge
from pygen import write_pkg
from runner import Opts, run_many

PKG = "nampk"
MODSEGS = ["my_mod", "mod_a_b", "modA", "plain", "trail_", "two__under"]
RESEGS = ["data_sets", "plots", "a_first"]      # packages whose stubs hold re-exported declarations


def skeleton(stubs: Stubs) -> dict:
    """Per Python module: the stub with names replaced by recovered Python names; documentation and annotations dropped."""
    def rename(t, tps):
        """Type parameters have no Python-name annotation: they are compared by the position of their declaration."""
        if t["k"] == "named" and t["n"] in tps:
            return dict(t, n=tps[t["n"]], a=[rename(x, tps) for x in t["a"]])
        return dict(t, a=[rename(x, tps) for x in t["a"]])

    def decl(d, outer=None):
        tps = dict(outer or {})
        depth = len({v.split(".")[0] for v in tps.values()})
        for j, t in enumerate(d.typeparams):
            tps[t["name"]] = f"$tp{depth}.{j}"
        ty = lambda x: rename(type_term(x), tps)  # noqa: E731
        return {"k": d.kind, "n": d.pyname, "static": d.static, "tp": [[tps[t["name"]], t["variance"], ty(t["bound"])] for t in d.typeparams],
                "params": None if d.params is None else [[p["pyname"], ty(p["type"]), p["default"]] for p in d.params],
                "res": [ty(r["type"]) for r in d.results], "supers": [ty(s) for s in d.supers],
                "type": ty(d.type) if d.kind == "attr" else None, "todos": sorted(d.todos), "members": [decl(m, tps) for m in d.members]}
    out = {}
    # an import names the package as the stubs show it; its Python module is recovered from the stub that declares that package
    pkg2py = {f.package: (f.pymodule or f.package) for f in stubs.files.values()}
    for rel, f in stubs.files.items():
        key = f.pymodule or f.package
        imports = sorted([pkg2py.get(frm, frm), name, alias] for frm, name, alias in f.imports)
        out[key] = json.dumps({"imports": imports, "decls": [decl(d) for d in f.members]}, sort_keys=True)
    return out


def stripped_digit(n: str) -> bool:
    t = n.strip("_")
    return bool(t) and t[0].isdigit()


def main(v: Verdict) -> None:
    recs = generate(v, "Ident", "C09_MC.cfg" if TIER == "quick" else "C09_MC_thorough.cfg", min_records=300)
    names = [r["name"] for r in recs]
    camel = {r["name"]: r["camel"] for r in recs}
    if not names:
        return
    # (a) function level: one implementation call per spec behaviour
    from safeds_stubgen.stubs_generator._helper import NamingConvention, _convert_name_to_convention
    obs = []
    for n in names:
        o = {}
        for key, conv, is_cls in (("lower", NamingConvention.SAFE_DS, False), ("upper", NamingConvention.SAFE_DS, True), ("off", NamingConvention.PYTHON, False)):
            try:
                o[key] = str(_convert_name_to_convention(n, conv, is_class_name=is_cls))
            except Exception as e:  # noqa: BLE001
                o[key] = f"@exception:{type(e).__name__}"
        obs.append({"id": f"fn:{n}", "kind": "fn", "name": n, "obs": o})
    # (b) end to end: every identifier in every declaration position, with the flag off and on
    e2e = names if TIER == "thorough" else [n for n in names if len(n) <= 3 or not set(n) <= set("abA1_")]
    # the thorough universe is spread over packages of at most 700 names that are analysed side by side (the tool's run time grows
    # faster than linearly with the size of one package)
    chunks = [e2e] if TIER == "quick" else [e2e[c:c + 700] for c in range(0, len(e2e), 700)]
    built = []
    for ci, e2e in enumerate(chunks):
        PKGN = PKG if ci == 0 else f"{PKG}c{ci:02d}"
        usable = [n for n in e2e if not keyword.iskeyword(n) and n not in ("None", "True", "False")]
        pub = [n for n in usable if not n.startswith("_")]
        files = {"__init__.py": ""}
        files["mcls.py"] = "\n".join(f"class {n}:\n    pass\n" for n in pub)
        files["mfun.py"] = "\n".join(f"def {n}() -> int:\n    ...\n" for n in pub)
        files["mmeth.py"] = "class Holder:\n" + ("\n".join(f"    def {n}(self) -> int:\n        ...\n" for n in pub) or "    pass\n")
        files["mattr.py"] = "class Holder:\n" + ("\n".join(f"    {n}: int" for n in pub) or "    pass") + "\n"
        files["menum.py"] = "from enum import Enum\n\n\nclass Holder(Enum):\n" + ("\n".join(f"    {n} = {k}" for k, n in enumerate(pub)) or "    pass") + "\n"
        # names whose camel form starts with a digit give an illegal identifier (C02's business): keep them in a module of their own
        pmod = {n: ("mparamd" if stripped_digit(n) else "mparam") for n in usable}
        for mod in ("mparam", "mparamd"):
            files[f"{mod}.py"] = "\n".join(f"def pf{k}({n}: int) -> int:\n    ...\n" for k, n in enumerate(usable) if pmod[n] == mod)
        # two Python names that are rendered alike under conversion, met in one class through an internal superclass whose members are
        # inlined; and an attribute that shadows a like-named property of the internal superclass
        inh = []
        for k, n in enumerate(pub):
            c = camel.get(n, n)
            if c != n and c.isidentifier() and not keyword.iskeyword(c):
                inh.append(f"class _IB{k}:\n    def {n}(self) -> int:\n        ...\n\n\nclass ISub{k}(_IB{k}):\n    def {c}(self) -> str:\n        ...\n")
                inh.append(f"class _IC{k}:\n    def {c}(self) -> int:\n        ...\n\n\nclass ISubC{k}(_IC{k}):\n    def {n}(self) -> str:\n        ...\n")
            if "_" in n.strip("_"):
                inh.append(f"class _IP{k}:\n    @property\n    def {n}(self) -> int:\n        ...\n\n    def other{k}(self) -> int:\n        ...\n\n\n"
                           f"class ISubP{k}(_IP{k}):\n    {n}: int = 1\n")
                inh.append(f"class _IM{k}:\n    def {n}(self) -> int:\n        ...\n\n\nclass ISubM{k}(_IM{k}):\n    {n}: int = 1\n")
        files["minherit.py"] = "\n\n".join(inh) or "X = 1\n"
        for seg in MODSEGS:
            files[f"{seg}.py"] = "def inmod() -> int:\n    ...\n"
        # type variables with convertible names: of the class, of the constructor only, of a method
        files["mgeneric.py"] = ("from typing import Generic, TypeVar\n\nT_in = TypeVar(\"T_in\")\nU_out = TypeVar(\"U_out\", covariant=True)\nv_x = TypeVar(\"v_x\")\n\n\n"
                                "class Box(Generic[T_in, U_out]):\n    def __init__(self, item: T_in):\n        self.item = item\n\n    def get(self) -> T_in:\n        ...\n\n"
                                "    def conv(self, f: v_x) -> U_out:\n        ...\n\n    def put(self, other: T_in) -> T_in:\n        ...\n\n    def tag(self, key: v_x, value: T_in) -> int:\n        ...\n\n\nclass CtorOnly:\n    def __init__(self, x: v_x):\n        self.x = x\n\n\ndef free_fn(a: T_in) -> T_in:\n    ...\n")
        # packages that receive re-exported declarations: one whose path changes under conversion, handled before one whose path does not
        files["core/__init__.py"] = ""
        files["core/_shared.py"] = "def re_fn() -> int:\n    ...\n\n\nclass ReCls:\n    pass\n\n\nclass ReOther:\n    pass\n"
        files["data_sets/__init__.py"] = f"from {PKGN}.core._shared import re_fn\nfrom .sub_part import tool_mod\n"
        # a module that its grand-parent package re-exports as a whole (the package path changes under conversion)
        files["data_sets/sub_part/__init__.py"] = ""
        files["data_sets/sub_part/tool_mod.py"] = "def tool_fn(first_arg: int) -> int:\n    ...\n\n\nclass ToolCls:\n    pass\n"
        files["data_sets/fill.py"] = "def fill_a() -> int:\n    ...\n"
        files["plots/__init__.py"] = f"from {PKGN}.core._shared import ReCls\n"
        files["plots/fill.py"] = "def fill_b() -> int:\n    ...\n"
        files["a_first/__init__.py"] = f"from {PKGN}.core._shared import ReOther\n"
        files["a_first/fill.py"] = "def fill_c() -> int:\n    ...\n"
        # a class of another library in a private module below a snake_case package: every path segment is converted on its own
        files["mforeign.py"] = "from c9lib.linear_model._base import Regressor\n\n\ndef fits(r: Regressor) -> Regressor:\n    ...\n"
        pkg = write_pkg(files, PKGN, siblings={"c9lib": {"__init__.py": "", "linear_model/__init__.py": "", "linear_model/_base.py": "class Regressor:\n    pass\n"}})
        built.append((PKGN, pkg, pub, usable, pmod))
    jobs = []
    for PKGN, pkg, pub, usable, pmod in built:
        jobs += [{"src": pkg, "opts": Opts(docstyle="NUMPYDOC", nc=False), "timeout": 900}, {"src": pkg, "opts": Opts(docstyle="NUMPYDOC", nc=True), "timeout": 900}]
    runs = run_many(jobs)
    for ci, (PKGN, pkg, pub, usable, pmod) in enumerate(built):
        r_off, r_on = runs[2 * ci], runs[2 * ci + 1]
        pre = "" if ci == 0 else f"c{ci:02d}:"
        if r_off.exit != "ok" or r_on.exit != "ok":
            v.extra.setdefault("unobservable", []).extend({"package": PKGN, "exit": r.exit, "exc": r.exc, "frame": r.frame, "msg": r.msg} for r in (r_off, r_on) if r.exit != "ok")
        else:
            s_off, s_on = Stubs(r_off), Stubs(r_on)

            def find(stubs, module, pos, n, k=None):
                """-> (shown name, annotated) or None"""
                for rel, f in stubs.files.items():
                    if (f.pymodule or f.package) != f"{PKGN}.{module}":
                        continue
                    if pos in ("class", "function"):
                        for d in f.members:
                            if d.pyname == n and d.kind == ("class" if pos == "class" else "fun"):
                                return d.name, any(a == "PythonName" for a, _ in d.annotations)
                    elif pos in ("method", "attribute", "enum member"):
                        for d in f.members:
                            if d.pyname == "Holder":
                                for m in d.members:
                                    if m.pyname == n:
                                        return m.name, any(a == "PythonName" for a, _ in m.annotations)
                    elif pos == "parameter":
                        for d in f.members:
                            if d.pyname == f"pf{k}" and d.params and len(d.params) == 1:
                                p = d.params[0]
                                return p["name"], p["pyname"] != p["name"] or False
                    elif pos == "result":
                        for d in f.members:
                            if d.pyname == f"rf{k}" and len(d.results) == 1:
                                x = d.results[0]
                                return x["name"], x["pyname"] != x["name"]
                return None

            import re

            def errored(stubs):
                mods = set()
                for rel in stubs.errors:
                    text = stubs.run.stubs[rel]
                    m = re.search(r'@PythonModule\("([^"]+)"\)', text) or re.search(r"^package (\S+)", text, re.M)
                    if m:
                        mods.add(m.group(1))
                return mods
            bad_mods = errored(s_off) | errored(s_on)

            def add(pos, module, n, k=None):
                if f"{PKGN}.{module}" in bad_mods:          # a stub that does not parse is reported by C02, not here
                    v.extra["unobservable_decls"] = v.extra.get("unobservable_decls", 0) + 1
                    return
                a, b = find(s_off, module, pos, n, k), find(s_on, module, pos, n, k)
                obs.append({"id": f"{pos}:{n}", "kind": "decl", "obs": {
                    "pos": pos, "py": n, "missingOff": a is None, "missingOn": b is None,
                    "shownOff": a[0] if a else "", "annotatedOff": bool(a[1]) if a else False,
                    "shownOn": b[0] if b else "", "annotatedOn": bool(b[1]) if b else False, "annotationOn": n if (b and b[1]) else ""}})

            for n in pub:
                add("class", "mcls", n)
                add("function", "mfun", n)
                add("method", "mmeth", n)
                add("attribute", "mattr", n)
                add("enum member", "menum", n)
            for k, n in enumerate(usable):
                add("parameter", pmod[n], n, k)
            # result names carry no @PythonName annotation in the stub language the generator emits; judged by shown name only
            # module path segments
            for seg in MODSEGS:
                off = [f for f in s_off.files.values() if (f.pymodule or f.package) == f"{PKGN}.{seg}"]
                on = [f for f in s_on.files.values() if (f.pymodule or f.package) == f"{PKGN}.{seg}"]
                obs.append({"id": f"{pre}module:{seg}", "kind": "decl", "obs": {
                    "pos": "module", "py": f"{PKGN}.{seg}", "missingOff": not off, "missingOn": not on,
                    "shownOff": off[0].package if off else "", "annotatedOff": bool(off and off[0].pymodule),
                    "shownOn": on[0].package if on else "", "annotatedOn": bool(on and on[0].pymodule), "annotationOn": on[0].pymodule if on else ""}})
            for py in ("c9lib.linear_model._base",):      # the placeholder stub of the other library's module
                off = [f for f in s_off.files.values() if (f.pymodule or f.package) == py]
                on = [f for f in s_on.files.values() if (f.pymodule or f.package) == py]
                obs.append({"id": f"{pre}module:{py}", "kind": "decl", "obs": {
                    "pos": "module", "py": py, "missingOff": not off, "missingOn": not on,
                    "shownOff": off[0].package if off else "", "annotatedOff": bool(off and off[0].pymodule),
                    "shownOn": on[0].package if on else "", "annotatedOn": bool(on and on[0].pymodule), "annotationOn": on[0].pymodule if on else ""}})
            # the stubs of re-exported declarations: found by their place in the output tree
            for seg in RESEGS:
                pick = lambda st: [f for rel, f in sorted(st.files.items()) if rel.startswith(f"{PKGN}/{seg}/") and rel.count("/") == 2]  # noqa: E731
                off, on = pick(s_off), pick(s_on)
                for j in range(max(len(off), len(on), 1)):
                    fo, fn = (off[j] if j < len(off) else None), (on[j] if j < len(on) else None)
                    obs.append({"id": f"{pre}reexport-package:{seg}:{j}", "kind": "decl", "obs": {
                        "pos": "module", "py": f"{PKGN}.{seg}", "missingOff": fo is None, "missingOn": fn is None,
                        "shownOff": fo.package if fo else "", "annotatedOff": bool(fo and fo.pymodule),
                        "shownOn": fn.package if fn else "", "annotatedOn": bool(fn and fn.pymodule), "annotationOn": fn.pymodule if fn else ""}})
            if s_off.errors or s_on.errors:
                v.extra["unparsable_stubs"] = {"off": list(s_off.errors.items())[:5], "on": list(s_on.errors.items())[:5]}
            k_off, k_on = skeleton(s_off), skeleton(s_on)
            for mod in sorted(set(k_off) | set(k_on)):
                if mod in k_off and mod in k_on:       # a module whose stub does not parse on one side is C02's business
                    obs.append({"id": f"{pre}skeleton:{mod}", "kind": "skel", "obs": {"file": mod, "off": sha(k_off[mod]), "on": sha(k_on[mod])},
                                "_detail": [k_off[mod][:3000], k_on[mod][:3000]] if k_off[mod] != k_on[mod] else []})
    bad = judge(v, "C09_Trace", obs)
    v.add_bad(bad)
    v.samples = obs[:2] + obs[-3:]
    v.extra["identifiers"] = len(names)
    v.extra["inherited_collision_classes"] = len(inh)
    v.extra["function_level_calls"] = 3 * len(names)
    v.extra["declarations_judged"] = sum(1 for o in obs if o["kind"] == "decl")
    v.assumptions += ["all-underscore names other than '_' have no camel form and are not generated", "stub parser harness/sds.py is hand-written"]
