"""C18 - a module's stub depends only on what the module uses (spec/Locality.tla)."""
from __future__ import annotations

import json

from common import Verdict, sha
from facts import Stubs, type_term
from flow import generate, judge
from pygen import write_pkg
from runner import Opts, run_many

PKG = "locpk"
M_DECLS = [
    'def first(a: Helper, b: int = 1) -> Helper:\n    """First function."""\n    ...\n',
    "def second(*args: int, k: str) -> tuple[int, str]:\n    ...\n",
    'class Helper:\n    """Helper class."""\n\n    at: int = 1\n\n    def meth(self, o: Other) -> int:\n        ...\n',
    "class Other(Helper):\n    def more(self, x: list[Helper]) -> set[int]:\n        ...\n",
    "class Col(Enum):\n    RED = 1\n    BLUE = 2\n",
    "class Box(Generic[T]):\n    def get(self) -> T:\n        ...\n",
    "class Picker:\n    def pick(self, items: list[T]) -> T:\n        ...\n",
    # an attribute-only generic class: its last member mentions the type variable outside of any function
    "class Rec(Generic[T]):\n    content: T\n    history: list[T]\n",
    "def third(a: int) -> int:\n    ...\n",
]
NFIX = len(M_DECLS)
# an unrelated module that ends with such a class; "amod" is enumerated before "mmod", "umod" after it
TRAIL = "from typing import Generic, TypeVar\n\nK = TypeVar(\"K\")\n\n\n{body}\n\nclass {name}(Generic[K]):\n    content: K\n    history: list[K]\n"
U_PLAIN = "class Unrelated:\n    pass\n\n\ndef unrelated_fun(a: int) -> int:\n    ...\n"
U_CHANGED = "class Unrelated:\n    def extra(self) -> str:\n        ...\n\n\ndef unrelated_fun(a: str, b: int = 2) -> str:\n    ...\n\n\nclass Another:\n    pass\n"
U_SAME = ("class Helper:\n    def meth(self, q: str) -> str:\n        ...\n\n\nclass Other:\n    pass\n\n\nclass Sibling:\n    pass\n\n\n"
          "def first(z: Helper) -> Other:\n    ...\n\n\nclass Col:\n    pass\n\n\n"
          "SibAlias = Other\n\n\nclass UsesSibAliasToo(SibAlias):\n    pass\n\n\n"
          "HandleAlias = Sibling\n\n\nclass UsesAliasToo(HandleAlias):\n    def via(self, h: HandleAlias) -> HandleAlias:\n        ...\n\n\n"
          "INSTANCE = Helper()\nOTHER = Other()\nSIB = Sibling()\nCOL = Col()\n\n\ndef make() -> Helper:\n    return Helper()\n")


def m_source(base: str, order: int) -> str:
    decls = list(M_DECLS)
    head = ["from __future__ import annotations", "import argparse", "from decimal import Decimal", "from email.message import Message", "from gadgetlib_ext import ExtThing", "from enum import Enum", "from typing import Generic, TypeVar", "", 'T = TypeVar("T")']
    decls.append("def money(d: Decimal) -> Decimal:\n    ...\n")
    decls.append("def mail(m: Message) -> Message:\n    ...\n")      # a class of a sub-module of another library
    decls.append("def ext(t: ExtThing) -> ExtThing:\n    ...\n")      # a class of a library that is not installed where the analysis runs      # a class of another library; an unrelated module may define a class of that name
    # named like a module of the standard library that an unrelated package file may import
    decls.append("def logging(level: int) -> int:\n    ...\n")
    # a type that only the docstring names; an unrelated module may define a class of that name
    decls.append('def documented(t, n: int) -> int:\n    """Use a widget.\n\n    Parameters\n    ----------\n    t : Widget\n        The widget.\n    n : int\n        A number.\n    """\n    ...\n')
    if base == "references-sibling":
        head.append(f"from {PKG}.sibmod import Sibling")
        decls.append("def uses_sibling(s: Sibling) -> Sibling:\n    ...\n")
        # an alias of a class that M imports; an unrelated module may bind the same alias name to another class
        decls.append("SibAlias = Sibling\n\n\nclass UsesSibAlias(SibAlias):\n    def via(self, s: SibAlias) -> SibAlias:\n        ...\n")
    if base == "private-mixin":
        head.append(f"from {PKG}._mixin import _Summarizable")
        decls.append("class Report(_Summarizable):\n    def render(self) -> int:\n        ...\n")
    if base == "unanalysed-names":
        decls.append("def odd(a: list[Helper, Other], b: set[Other, int]) -> int:\n    ...\n")
    if order == 2:
        # functions among themselves, classes among themselves (a subclass stays after its base class)
        extra = decls[NFIX:]
        # (the class whose method has a type variable of its own comes before every generic class here, after one in the other order)
        decls = [decls[1], decls[0], decls[8]] + extra + [decls[6], decls[7], decls[4], decls[5], decls[2], decls[3]]
    # an internal class of another library as superclass; an unrelated module "xargparse" may define a class of that name
    decls.append("class UsesForeignInternal(argparse._ActionsContainer):\n    def own_member(self) -> int:\n        ...\n")
    # an alias of M's own class, used as superclass and as type; an unrelated module may bind the same alias name to a class of its own
    decls.append("HandleAlias = Helper\n\n\nclass UsesAlias(HandleAlias):\n    def via(self, h: HandleAlias) -> HandleAlias:\n        ...\n")
    return "\n".join(head) + "\n\n\n" + "\n\n".join(decls)


def package(base: str, u: int, u2: int, order: int, ri: int = 0):
    sub = base == "reexported-by-init"
    files = {"__init__.py": ""}
    mrel = "inner/mmod.py" if sub else "mmod.py"
    if sub:
        files["inner/__init__.py"] = ""
        files["__init__.py"] = "from .inner.mmod import Helper\n"
    files[mrel] = m_source(base, order)
    if base == "references-sibling":
        files["sibmod.py"] = "class Sibling:\n    pass\n"
    if base == "private-mixin":
        files["tables.py"] = "class Table:\n    pass\n"
        files["_mixin.py"] = f"from {PKG}.tables import Table\n\n\nclass _Summarizable:\n    def summarize(self, t: Table) -> Table:\n        ...\n"
    sibling = (f"from {PKG}._mixin import _Summarizable\n\n\nclass OtherReport(_Summarizable):\n    def render(self) -> int:\n        ...\n"
               if base == "private-mixin" else U_PLAIN)
    content = {1: U_PLAIN, 2: U_CHANGED, 3: U_SAME, 4: sibling, 5: U_PLAIN, 6: U_PLAIN}
    if u:
        files["umod.py"] = content[u]
        files["amod.py"] = content[u].replace("OtherReport", "OtherReportA") if u == 4 else TRAIL.format(body=content[u].replace("Unrelated", "UnrelatedA").replace("unrelated_fun", "unrelated_fun_a"), name="ARec")
    if u == 3:      # ... in a module whose path ends like the other library's ("decimal")
        files["bigdecimal.py"] = "class Decimal:\n    pass\n"
        files["xargparse.py"] = "class _ActionsContainer:\n    def injected(self) -> int:\n        ...\n"
        # ... and in a package with a module called like the other library's; its package file imports a standard-library module called like M's function
        files["utilpk/__init__.py"] = "import logging\n"
        files["utilpk/decimal.py"] = "class Decimal:\n    pass\n"
        files["utilpk/email/__init__.py"] = ""
        files["utilpk/email/message.py"] = "class Message:\n    pass\n"
    if u == 6:      # an unrelated module is called like a library that M uses and that is not installed, and defines a class of that name
        files["utilpk/__init__.py"] = ""
        files["utilpk/gadgetlib_ext.py"] = "class ExtThing:\n    pass\n"
    if u == 5:      # an unrelated module defines a class called like the type that M's docstring names
        files["utilpk/__init__.py"] = ""
        files["utilpk/gadgets.py"] = "class Widget:\n    pass\n"
    if u2:
        files["renamed_umod.py"] = content[u2]
    if ri == 2:      # the root __init__ re-exports an unrelated module whose name is a string prefix of M's (mmo / mmod)
        files[mrel.replace("mmod.py", "mmo.py")] = U_PLAIN.replace("Unrelated", "UnrelatedP").replace("unrelated_fun", "unrelated_fun_p")
        files["__init__.py"] += "from .inner import mmo\n" if sub else "from . import mmo\n"
        return files
    if ri:      # the root __init__ re-exports the unrelated module's class that is named like the one M uses
        files["__init__.py"] += "from .umod import Sibling\n"
    return files


START_U = {"rename-unrelated": 1, "change-unrelated": 1, "remove-unrelated": 1}


def apply(kind, u):
    return {"add-plain": (1, 0, 1), "add-same-names": (3, 0, 1), "rename-unrelated": (0, u, 1), "change-unrelated": (2, 0, 1),
            "remove-unrelated": (0, 0, 1), "permute-own": (u, 0, 2), "reexport-unrelated-same-name": (3, 0, 1, 1), "add-sibling-subclass": (4, 0, 1), "reexport-unrelated-prefix-module": (0, 0, 1, 2), "add-class-named-in-docstring": (5, 0, 1), "add-module-named-like-uninstalled-library": (6, 0, 1)}[kind]


def facts(r):
    stubs = Stubs(r)
    out = {}
    for rel, text in r.stubs.items():
        f = stubs.files.get(rel)
        if f is None:
            continue
        mod = f.pymodule or f.package
        if not (mod.endswith(".mmod") or mod == PKG or mod.endswith(".inner")):
            continue
        if rel.endswith("/Sibling.sdsstub") or rel.endswith("/mmo.sdsstub"):      # the unrelated module's re-exported class: not a stub of M
            continue

        def decl(d):
            return json.dumps({"k": d.kind, "n": d.pyname, "doc": d.doc, "todos": d.todos, "static": d.static,
                               "tp": [[t["name"], t["variance"], type_term(t["bound"])] for t in d.typeparams],
                               "params": None if d.params is None else [[p["pyname"], type_term(p["type"]), p["default"]] for p in d.params],
                               "res": [[x["pyname"], type_term(x["type"])] for x in d.results], "supers": [type_term(s) for s in d.supers],
                               "type": type_term(d.type) if d.kind == "attr" else None, "members": [decl(m) for m in d.members]}, sort_keys=True)
        out[rel] = {"bytes": sha(text), "bag": sha(json.dumps(sorted(decl(d) for d in f.members))), "head": sha(json.dumps([f.package, f.pymodule, sorted(map(list, f.imports)), f.doc]))}
    return out


TEXTS: dict = {}


def feature_obs(v: Verdict, fscs) -> list:
    """Every declaration form of Pipeline.tla: its stubs in the package of all forms vs in a package of its own (same names, same paths)."""
    from checks import c01
    import features  # noqa: F401
    if not fscs:
        return []
    feats = [(k, sc["feat"]) for k, sc in enumerate(fscs)]

    def style_of(f):
        if f[0] != "doc":
            return "PLAINTEXT"
        return "GOOGLE" if "google" in f[1].lower() else "REST" if "rest" in f[1].lower() else "PLAINTEXT" if f[1] == "PLAINTEXT" else "NUMPYDOC"
    styles = sorted({style_of(f) for _, f in feats})
    jobs = [{"src": c01.build(feats, "pipepk"), "opts": Opts(docstyle=st), "timeout": 600} for st in styles]
    jobs += [{"src": c01.build([(k, f)], "pipepk"), "opts": Opts(docstyle=style_of(f)), "timeout": 120} for k, f in feats]
    runs = run_many(jobs)
    packs = dict(zip(styles, runs[:len(styles)]))
    out = []
    for (k, f), r in zip(feats, runs[len(styles):]):
        pr = packs[style_of(f)]
        if r.exit != "ok" or pr.exit != "ok":
            v.extra.setdefault("unobservable", []).append({"feature": f, "exits": [pr.exit, r.exit]})
            continue
        pre = f"pipepk/f{k:03d}/"
        a = {rel: t for rel, t in pr.stubs.items() if rel.startswith(pre)}
        b = {rel: t for rel, t in r.stubs.items() if rel.startswith(pre)}
        for rel in sorted(set(a) | set(b)):
            x, y = a.get(rel), b.get(rel)
            dx, dy = (sha(x) if x is not None else "@absent"), (sha(y) if y is not None else "@absent")
            o = {"base": f"feature:{f[0]}:{f[1]}", "kind": "remove-all-unrelated", "a": dx, "b": dy, "bagA": dx, "bagB": dy, "headA": "", "headB": ""}
            if dx != dy:
                TEXTS[f"feature:{f[0]}:{f[1]}:{rel}"] = {"together": x, "alone": y}
            out.append({"id": f"feature:{f[0]}:{f[1]}:{rel}", "obs": o})
    v.extra["feature_modules_compared"] = len(out)
    return out


def main(v: Verdict) -> None:
    scs = generate(v, "Locality", "C18_MC.cfg", min_records=20)
    if not scs:
        return
    fscs = sorted((sc for sc in scs if sc["base"] == "feature"), key=lambda sc: sc["feat"])
    scs = [sc for sc in scs if sc["base"] != "feature"]
    jobs, meta = [], []
    for k, sc in enumerate(scs):
        u0 = START_U.get(sc["kind"], 0)
        a = package(sc["base"], u0, 0, 1)
        b = package(sc["base"], *apply(sc["kind"], u0))
        for tag, files in (("a", a), ("b", b)):
            jobs.append({"src": write_pkg(files, PKG), "opts": Opts(docstyle="NUMPYDOC"), "timeout": 300})
            meta.append((k, tag))
    runs = run_many(jobs)
    res = {}
    for (k, tag), r in zip(meta, runs):
        res[(k, tag)] = r
    obs = []
    for k, sc in enumerate(scs):
        ra, rb = res[(k, "a")], res[(k, "b")]
        if ra.exit != "ok" or rb.exit != "ok":
            v.extra.setdefault("unobservable", []).append({"scenario": sc, "exits": [ra.exit, rb.exit], "exc": ra.exc or rb.exc, "frame": ra.frame or rb.frame})
            continue
        fa, fb = facts(ra), facts(rb)
        for rel in sorted(set(fa) | set(fb)):
            x, y = fa.get(rel), fb.get(rel)
            none = {"bytes": "@absent", "bag": "@absent", "head": "@absent"}
            x, y = x or none, y or none
            obs.append({"id": f"{sc['base']}:{sc['kind']}:{rel}", "obs": {"base": sc["base"], "kind": sc["kind"], "a": x["bytes"], "b": y["bytes"],
                                                                         "bagA": x["bag"], "bagB": y["bag"], "headA": x["head"], "headB": y["head"]}})
    obs += feature_obs(v, fscs)
    if not obs:
        v.machinery("nothing observable")
        return
    bad = judge(v, "C18_Trace", obs)
    for b in bad:
        if b.get("subject") in TEXTS:
            b["stubs"] = TEXTS[b["subject"]]
    v.add_bad(bad)
    v.samples = obs[:3]
    v.extra["pairs"] = len(scs)
    v.extra["stub_pairs_judged"] = len(obs)
    v.traces = len(runs)
    v.assumptions += ["'unrelated' = no reference in either direction, no re-export path, not an ancestor __init__ with imports (computed in the spec's Deps)"]
