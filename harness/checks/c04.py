"""C04 - private declarations never leak into stubs; the API JSON marks exactly those as non-public (spec/Package.tla, universe U1)."""
from checks.topocheck import run_topology


def main(v):
    run_topology(v, ("C04",))
