"""C04 - private declarations never leak into stubs; the API JSON marks exactly those as non-public (spec/Package.tla U1, spec/Package2.tla U2)."""
from checks.topocheck import run_topology, run_topology2


def main(v):
    run_topology(v, ("C04",))
    run_topology2(v, ("C04",))
