"""Thin driver around TLC. Runs a spec with a cfg, returns statistics, printed JSON records and errors."""
from __future__ import annotations

import json
import os
import re
import shutil
import subprocess
import time
from pathlib import Path

from common import NCPU, SPEC, fresh_dir, log

JAR = "/opt/veriftools/tla/tla2tools.jar"


def _classpath() -> str:
    # `tlc` wrapper on PATH already carries CommunityModules; we call java directly to control heap and properties
    cm = [str(p) for p in Path("/opt/veriftools/tla").glob("*.jar")]
    return ":".join(cm)


_STATS = re.compile(r"(\d+) states generated, (\d+) distinct states found, (\d+) states left on queue")
_DEPTH = re.compile(r"The depth of the complete state graph search is (\d+)")


def run_tlc(module: str, cfg: str | None = None, *, env: dict | None = None, workers: int | str = 1,
            simulate: str | None = None, depth: int | None = None, seed: int | None = None,
            timeout: int = 1200, coverage: bool = False, heap: str = "6g", deadlock: bool = False,
            extra: list[str] | None = None) -> dict:
    """Run TLC on spec/<module>.tla with spec/<cfg>. Returns dict(ok, records, generated, distinct, depth, errors, out)."""
    meta = fresh_dir("tlc")
    cfgp = SPEC / (cfg or f"{module}.cfg")
    cmd = ["java", f"-Xmx{heap}", "-XX:+UseParallelGC", "-cp", _classpath(), "tlc2.TLC",
           "-metadir", str(meta), "-noGenerateSpecTE", "-workers", str(workers), "-config", str(cfgp)]
    if simulate:
        cmd += ["-simulate", simulate]
    if depth is not None:
        cmd += ["-depth", str(depth)]
    if seed is not None:
        cmd += ["-seed", str(seed)]
    if coverage:
        cmd += ["-coverage", "1"]
    if deadlock:
        cmd += ["-deadlock"]
    if extra:
        cmd += extra
    cmd += [str(SPEC / f"{module}.tla")]
    e = dict(os.environ)
    if env:
        e.update({k: str(v) for k, v in env.items()})
    t0 = time.time()
    try:
        p = subprocess.run(cmd, cwd=str(SPEC), env=e, capture_output=True, text=True, timeout=timeout)
        out = p.stdout + p.stderr
        rc = p.returncode
    except subprocess.TimeoutExpired as ex:
        out = (ex.stdout or b"").decode("utf-8", "replace") if isinstance(ex.stdout, bytes) else (ex.stdout or "")
        out += "\nTLC TIMEOUT"
        rc = -9
    wall = time.time() - t0
    shutil.rmtree(meta, ignore_errors=True)
    records = []
    errors = []
    for line in out.splitlines():
        if line.startswith('"{') or line.startswith('"['):
            try:
                records.append(json.loads(json.loads(line)))
            except (ValueError, TypeError):
                errors.append("unparsable PrintT line: " + line[:200])
    gen = dist = queue = 0
    for m in _STATS.finditer(out):
        gen, dist, queue = int(m.group(1)), int(m.group(2)), int(m.group(3))
    d = 0
    m = _DEPTH.search(out)
    if m:
        d = int(m.group(1))
    if simulate:
        m2 = re.search(r"The number of states generated: (\d+)", out)
        if m2:
            gen = dist = int(m2.group(1))
    plain = [ln for ln in out.splitlines() if not ln.startswith('"')]      # PrintT records may quote anything
    for pat in ("Error:", "is violated", "Deadlock reached", "TLC TIMEOUT", "Exception", "*** Errors"):
        for ln in plain:
            if pat in ln:
                errors.append(ln.strip()[:300])
    ok = rc == 0 and not errors
    if not ok:
        log(f"[tlc] {module} rc={rc} errors={errors[:5]}")
        log(out[-3000:])
    cov = {}
    if coverage:
        for m3 in re.finditer(r"<(\w+) line \d+, col \d+ to line \d+, col \d+ of module (\w+)>: (\d+):(\d+)", out):
            cov[f"{m3.group(2)}!{m3.group(1)}"] = [int(m3.group(3)), int(m3.group(4))]
    return {"ok": ok, "rc": rc, "records": records, "generated": gen, "distinct": dist, "depth": d,
            "errors": errors, "out": out, "wall_s": round(wall, 2), "spec": module, "cfg": str(cfgp.name),
            "coverage": cov, "mode": "simulate" if simulate else "exhaustive"}


def write_json(path: Path, value) -> Path:
    path.write_text(json.dumps(value, ensure_ascii=True, separators=(",", ":")))
    return path
