"""Independent lexer and recursive-descent parser for the Safe-DS *stub* language (DESIGN 2.4, 5.3).

Written from the stub-language rules the generator targets; calibrated on the upstream snapshot stubs.
Strict where the language is certain, permissive where it is not (raw newlines and `{{` inside strings).
The parser is used to project stub files into facts. The verdict of C02 is taken by spec/SdsGrammar.tla on the
token classes produced by `lex`; `parse` is the cross-check.
"""
from __future__ import annotations

import re
from dataclasses import dataclass, field

KEYWORDS = {
    "_", "and", "annotation", "as", "attr", "class", "const", "enum", "false", "from", "fun", "import", "in",
    "internal", "literal", "not", "null", "or", "out", "package", "pipeline", "private", "schema", "segment",
    "static", "sub", "this", "true", "union", "unknown", "val", "where", "yield",
}
assert len(KEYWORDS) == 33

ESCAPES = set("bfnrtv0'\"{\\")


@dataclass
class Tok:
    cls: str          # ID QID KW:<kw> STRING INT FLOAT DOC COMMENT LINE P:<punct> BAD:<why> EOF
    text: str
    line: int
    pos: int = 0


_ID = re.compile(r"[A-Za-z_][A-Za-z0-9_]*")
_NUM = re.compile(r"[0-9]+(\.[0-9]+)?([eE][+-]?[0-9]+)?")
_PUNCT = ["->", "{", "}", "(", ")", "<", ">", "[", "]", ",", ":", "=", ".", "?", "@", "-"]


def lex(text: str) -> list[Tok]:
    toks: list[Tok] = []
    i, n, line = 0, len(text), 1
    while i < n:
        c = text[i]
        if c in " \t\r\n":
            if c == "\n":
                line += 1
            i += 1
            continue
        if text.startswith("/*", i):
            j = text.find("*/", i + 2)
            if j < 0:
                toks.append(Tok("BAD:unterminated-comment", text[i:i + 20], line, i))
                break
            body = text[i:j + 2]
            toks.append(Tok("DOC" if body.startswith("/**") and len(body) > 4 else "COMMENT", body, line, i))
            line += body.count("\n")
            i = j + 2
            continue
        if text.startswith("//", i):
            j = text.find("\n", i)
            j = n if j < 0 else j
            toks.append(Tok("LINE", text[i:j], line, i))
            i = j
            continue
        if c == '"':
            j = i + 1
            bad = ""
            while j < n and text[j] != '"':
                if text[j] == "\\":
                    if j + 1 >= n:
                        bad = "dangling-backslash"
                        break
                    if text[j + 1] == "u":
                        if not re.match(r"[0-9a-fA-F]{4}", text[j + 2:j + 6]):
                            bad = "bad-escape"
                        j += 2
                        continue
                    if text[j + 1] not in ESCAPES:
                        bad = "bad-escape"
                    j += 2
                    continue
                j += 1
            if j >= n:
                toks.append(Tok("BAD:unterminated-string", text[i:i + 30], line, i))
                break
            body = text[i:j + 1]
            toks.append(Tok("BAD:" + bad if bad else "STRING", body, line, i))
            line += body.count("\n")
            i = j + 1
            continue
        if c == "`":
            j = text.find("`", i + 1)
            if j < 0:
                toks.append(Tok("BAD:unterminated-backquote", text[i:i + 20], line, i))
                break
            name = text[i + 1:j]
            toks.append(Tok("QID" if _ID.fullmatch(name) else "BAD:bad-quoted-identifier", name, line, i))
            i = j + 1
            continue
        m = _ID.match(text, i)
        if m:
            w = m.group(0)
            toks.append(Tok("KW:" + w if w in KEYWORDS else "ID", w, line, i))
            i = m.end()
            continue
        m = _NUM.match(text, i)
        if m:
            w = m.group(0)
            # an identifier character straight after a number is a malformed (digit-initial) identifier
            if m.end() < n and (text[m.end()].isalpha() or text[m.end()] == "_"):
                m2 = _ID.match(text, m.end())
                toks.append(Tok("BAD:digit-initial-identifier", w + m2.group(0), line, i))
                i = m2.end()
                continue
            toks.append(Tok("FLOAT" if ("." in w or "e" in w or "E" in w) else "INT", w, line, i))
            i = m.end()
            continue
        for p in _PUNCT:
            if text.startswith(p, i):
                toks.append(Tok("P:" + p, p, line, i))
                i += len(p)
                break
        else:
            toks.append(Tok("BAD:char", c, line, i))
            i += 1
    toks.append(Tok("EOF", "", line, n))
    return toks


def token_classes(toks: list[Tok]) -> list[str]:
    """Token classes for SdsGrammar.tla: comments other than doc comments are dropped (they are trivia)."""
    out = []
    for t in toks:
        if t.cls in ("COMMENT", "LINE"):
            continue
        out.append("BAD" if t.cls.startswith("BAD:") else t.cls)
    return out


class SdsSyntaxError(Exception):
    def __init__(self, tok: Tok, expected: str):
        super().__init__(f"line {tok.line}: got {tok.cls} {tok.text[:30]!r}, expected {expected}")
        self.tok, self.expected = tok, expected


@dataclass
class Decl:
    kind: str                      # class fun attr enum variant
    name: str = ""
    quoted: bool = False
    pyname: str = ""
    doc: str | None = None
    todos: list = field(default_factory=list)
    annotations: list = field(default_factory=list)
    static: bool = False
    typeparams: list = field(default_factory=list)
    params: list | None = None
    supers: list = field(default_factory=list)
    members: list = field(default_factory=list)
    results: list = field(default_factory=list)
    type: dict | None = None
    line: int = 0

    def walk(self, owner=()):
        yield owner, self
        for m in self.members:
            yield from m.walk(owner + (self,))


@dataclass
class SdsFile:
    doc: str | None = None
    annotations: list = field(default_factory=list)
    package: str = ""
    pymodule: str = ""
    imports: list = field(default_factory=list)      # (from, name, alias)
    members: list = field(default_factory=list)
    trailing_todos: list = field(default_factory=list)

    def walk(self):
        for m in self.members:
            yield from m.walk()


class Parser:
    def __init__(self, text: str):
        self.toks = lex(text)
        self.i = 0
        self.pending_doc: str | None = None
        self.pending_todos: list[str] = []

    # -- token helpers: trivia (doc/line comments) is collected and attached to the next declaration
    def _skip_trivia(self):
        while True:
            t = self.toks[self.i]
            if t.cls == "DOC":
                self.pending_doc = t.text
            elif t.cls == "LINE":
                if t.text.startswith("// TODO"):
                    self.pending_todos.append(t.text[len("// TODO"):].strip())
            elif t.cls == "COMMENT":
                pass
            else:
                return
            self.i += 1

    def peek(self) -> Tok:
        self._skip_trivia()
        return self.toks[self.i]

    def peek2(self) -> Tok:
        self._skip_trivia()
        j = self.i + 1
        while self.toks[j].cls in ("DOC", "LINE", "COMMENT"):
            j += 1
        return self.toks[j]

    def next(self) -> Tok:
        t = self.peek()
        if t.cls.startswith("BAD"):
            raise SdsSyntaxError(t, "a valid token")
        if t.cls != "EOF":
            self.i += 1
        return t

    def accept(self, cls: str) -> Tok | None:
        if self.peek().cls == cls:
            return self.next()
        return None

    def expect(self, cls: str) -> Tok:
        t = self.peek()
        if t.cls != cls:
            raise SdsSyntaxError(t, cls)
        return self.next()

    def take_trivia(self):
        self._skip_trivia()
        d, t = self.pending_doc, self.pending_todos
        self.pending_doc, self.pending_todos = None, []
        return d, t

    def ident(self) -> tuple[str, bool]:
        t = self.peek()
        if t.cls == "ID":
            self.next()
            return t.text, False
        if t.cls == "QID":
            self.next()
            return t.text, True
        raise SdsSyntaxError(t, "identifier")

    def qname(self) -> str:
        parts = [self.ident()[0]]
        while self.peek().cls == "P:.":
            self.next()
            parts.append(self.ident()[0])
        return ".".join(parts)

    # -- grammar
    def file(self) -> SdsFile:
        f = SdsFile()
        anns = self.annotation_calls()
        doc, _ = self.take_trivia()
        f.doc = doc
        f.annotations = anns
        for a, arg in anns:
            if a == "PythonModule":
                f.pymodule = arg
        self.expect("KW:package")
        f.package = self.qname()
        while self.peek().cls == "KW:from":
            self.next()
            frm = self.qname()
            self.expect("KW:import")
            name = self.ident()[0]
            alias = None
            if self.accept("KW:as"):
                alias = self.ident()[0]
            f.imports.append((frm, name, alias))
        while self.peek().cls != "EOF":
            f.members.append(self.member())
        _, todos = self.take_trivia()
        f.trailing_todos = todos
        return f

    def annotation_calls(self) -> list:
        anns = []
        while self.peek().cls == "P:@":
            self.next()
            name = self.ident()[0]
            arg = None
            if self.accept("P:("):
                if self.peek().cls != "P:)":
                    t = self.next()
                    if t.cls not in ("STRING", "INT", "FLOAT", "KW:true", "KW:false", "KW:null"):
                        raise SdsSyntaxError(t, "annotation argument")
                    arg = unescape(t.text) if t.cls == "STRING" else t.text
                self.expect("P:)")
            anns.append((name, arg))
        return anns

    def member(self) -> Decl:
        # order in generated text: todos/doc, annotations, then the keyword
        self._skip_trivia()
        anns = self.annotation_calls()
        doc, todos = self.take_trivia()
        t = self.peek()
        static = False
        if t.cls == "KW:static":
            self.next()
            static = True
            t = self.peek()
        if t.cls == "KW:class" and not static:
            d = self.class_()
        elif t.cls == "KW:fun":
            d = self.fun()
        elif t.cls == "KW:attr":
            d = self.attr()
        elif t.cls == "KW:enum" and not static:
            d = self.enum()
        else:
            raise SdsSyntaxError(t, "declaration (class/fun/attr/enum)")
        d.static = static
        d.doc, d.todos, d.annotations = doc, todos, anns
        d.pyname = d.name
        for a, arg in anns:
            if a == "PythonName" and arg is not None:
                d.pyname = arg
        d.line = t.line
        return d

    def typeparams(self) -> list:
        tps = []
        if self.accept("P:<"):
            while True:
                variance = ""
                if self.peek().cls in ("KW:in", "KW:out"):
                    variance = self.next().text
                name, _ = self.ident()
                bound = None
                if self.accept("KW:sub"):
                    bound = self.type_()
                tps.append({"name": name, "variance": variance, "bound": bound})
                if not self.accept("P:,"):
                    break
            self.expect("P:>")
        return tps

    def params(self) -> list:
        ps = []
        self.expect("P:(")
        if self.peek().cls != "P:)":
            while True:
                anns = self.annotation_calls()
                name, quoted = self.ident()
                ty = None
                if self.accept("P::"):
                    ty = self.type_()
                default = None
                if self.accept("P:="):
                    default = self.expr()
                py = name
                for a, arg in anns:
                    if a == "PythonName" and arg is not None:
                        py = arg
                ps.append({"name": name, "quoted": quoted, "pyname": py, "type": ty, "default": default})
                if not self.accept("P:,"):
                    break
        self.expect("P:)")
        return ps

    def expr(self) -> dict:
        t = self.peek()
        if t.cls == "STRING":
            self.next()
            return {"t": "str", "v": unescape(t.text)}
        neg = False
        if t.cls == "P:-":
            self.next()
            neg = True
            t = self.peek()
            if t.cls not in ("INT", "FLOAT"):
                raise SdsSyntaxError(t, "number after '-'")
        if t.cls in ("INT", "FLOAT"):
            self.next()
            return {"t": "int" if t.cls == "INT" else "float", "v": ("-" if neg else "") + t.text}
        if t.cls in ("KW:true", "KW:false"):
            self.next()
            return {"t": "bool", "v": t.text}
        if t.cls == "KW:null":
            self.next()
            return {"t": "none", "v": "null"}
        if t.cls == "KW:unknown":
            self.next()
            return {"t": "unknown", "v": "unknown"}
        if t.cls == "P:[":
            self.next()
            self.expect("P:]")
            return {"t": "list", "v": "[]"}
        if t.cls == "P:{":
            self.next()
            self.expect("P:}")
            return {"t": "map", "v": "{}"}
        raise SdsSyntaxError(t, "expression")

    def results(self) -> list:
        rs = []
        if self.accept("P:->"):
            if self.accept("P:("):
                if self.peek().cls != "P:)":
                    while True:
                        rs.append(self.result())
                        if not self.accept("P:,"):
                            break
                self.expect("P:)")
            else:
                rs.append(self.result())
        return rs

    def result(self) -> dict:
        anns = self.annotation_calls()
        name, quoted = self.ident()
        self.expect("P::")
        ty = self.type_()
        py = name
        for a, arg in anns:
            if a == "PythonName" and arg is not None:
                py = arg
        return {"name": name, "quoted": quoted, "pyname": py, "type": ty}

    def type_(self) -> dict:
        t = self.peek()
        if t.cls == "KW:union":
            self.next()
            self.expect("P:<")
            items = [self.type_()]
            while self.accept("P:,"):
                items.append(self.type_())
            self.expect("P:>")
            ty = {"k": "union", "a": items}
        elif t.cls == "KW:literal":
            self.next()
            self.expect("P:<")
            lits = [self.expr()]
            while self.accept("P:,"):
                lits.append(self.expr())
            self.expect("P:>")
            ty = {"k": "literal", "a": lits}
        elif t.cls == "P:(":
            ps = self.params()
            self.expect("P:->")
            rs = []
            if self.accept("P:("):
                if self.peek().cls != "P:)":
                    while True:
                        rs.append(self.result())
                        if not self.accept("P:,"):
                            break
                self.expect("P:)")
            else:
                rs.append(self.result())
            ty = {"k": "callable", "p": ps, "r": rs}
        elif t.cls == "KW:unknown":
            self.next()
            ty = {"k": "unknown"}
        elif t.cls in ("ID", "QID"):
            name = self.qname()
            args = []
            if self.accept("P:<"):
                if self.peek().cls != "P:>":          # `Tuple<>` occurs in the upstream snapshots
                    args.append(self.type_())
                    while self.accept("P:,"):
                        args.append(self.type_())
                self.expect("P:>")
            ty = {"k": "named", "n": name, "a": args}
        else:
            raise SdsSyntaxError(t, "type")
        if ty["k"] == "named" and self.accept("P:?"):      # only a named type has a nullable form
            ty = dict(ty)
            ty["q"] = True
        return ty

    def class_(self) -> Decl:
        self.expect("KW:class")
        name, quoted = self.ident()
        d = Decl("class", name, quoted)
        d.typeparams = self.typeparams()
        if self.peek().cls == "P:(":
            d.params = self.params()
        if self.accept("KW:sub"):
            d.supers.append(self.type_())
            while self.accept("P:,"):
                d.supers.append(self.type_())
        if self.accept("P:{"):
            while self.peek().cls != "P:}":
                if self.peek().cls == "EOF":
                    raise SdsSyntaxError(self.peek(), "}")
                d.members.append(self.member())
            # comments directly before the closing brace belong to nobody
            self.take_trivia()
            self.expect("P:}")
        return d

    def fun(self) -> Decl:
        self.expect("KW:fun")
        name, quoted = self.ident()
        d = Decl("fun", name, quoted)
        d.typeparams = self.typeparams()
        d.params = self.params()
        d.results = self.results()
        return d

    def attr(self) -> Decl:
        self.expect("KW:attr")
        name, quoted = self.ident()
        d = Decl("attr", name, quoted)
        if self.accept("P::"):
            d.type = self.type_()
        return d

    def enum(self) -> Decl:
        self.expect("KW:enum")
        name, quoted = self.ident()
        d = Decl("enum", name, quoted)
        if self.accept("P:{"):
            while self.peek().cls != "P:}":
                if self.peek().cls == "EOF":
                    raise SdsSyntaxError(self.peek(), "}")
                anns = self.annotation_calls()
                doc, todos = self.take_trivia()
                vn, vq = self.ident()
                v = Decl("variant", vn, vq)
                v.pyname = vn
                for a, arg in anns:
                    if a == "PythonName" and arg is not None:
                        v.pyname = arg
                v.annotations = anns
                if self.peek().cls == "P:(":
                    v.params = self.params()
                d.members.append(v)
            self.take_trivia()
            self.expect("P:}")
        return d


_UNESC = {"b": "\b", "f": "\f", "n": "\n", "r": "\r", "t": "\t", "v": "\v", "0": "\0", "'": "'", '"': '"', "{": "{",
          "\\": "\\"}


def unescape(lit: str) -> str:
    body = lit[1:-1]
    out = []
    i = 0
    while i < len(body):
        c = body[i]
        if c == "\\" and i + 1 < len(body):
            n = body[i + 1]
            if n == "u":
                try:
                    out.append(chr(int(body[i + 2:i + 6], 16)))
                except ValueError:
                    out.append("?")
                i += 6
                continue
            out.append(_UNESC.get(n, n))
            i += 2
            continue
        out.append(c)
        i += 1
    return "".join(out)


def parse(text: str) -> SdsFile:
    return Parser(text).file()


def try_parse(text: str) -> tuple[SdsFile | None, str]:
    try:
        return parse(text), ""
    except SdsSyntaxError as e:
        return None, str(e)


def doc_lines(doc: str | None) -> list[str]:
    """Lines of a documentation comment without the comment frame."""
    if not doc:
        return []
    body = doc
    if body.startswith("/**"):
        body = body[3:]
    if body.endswith("*/"):
        body = body[:-2]
    lines = []
    for ln in body.split("\n"):
        s = ln.strip()
        if s.startswith("*"):
            s = s[1:]
            if s.startswith(" "):
                s = s[1:]
        lines.append(s.rstrip())
    while lines and not lines[0]:
        lines.pop(0)
    while lines and not lines[-1]:
        lines.pop()
    return lines
