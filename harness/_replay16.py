"""Child process of the C16 check: replays one history of stub generations on one real API object and logs digests."""
import hashlib
import json
import sys
from pathlib import Path

sys.path.insert(0, str(Path(__file__).parent))


def sha(x):
    return hashlib.sha256(x.encode()).hexdigest()[:16]


def main():
    pkg, hist, outp = sys.argv[1], json.loads(sys.argv[2]), sys.argv[3]
    from safeds_stubgen.api_analyzer import get_api
    from safeds_stubgen.stubs_generator import StubsStringGenerator, generate_stub_data
    import sds
    rec = {"api": [], "texts": [], "dupfiles": [], "same": [], "error": ""}
    try:
        api = get_api(root=Path(pkg))

        def snap():
            return sha(json.dumps(api.to_dict(), sort_keys=True, default=lambda o: sorted(o) if isinstance(o, (set, frozenset)) else str(o)))
        rec["api"].append(snap())
        gen = None
        for k, op in enumerate(hist):
            if gen is None or op == "gen-fresh":
                gen = StubsStringGenerator(api=api, convert_identifiers=False)
            data = generate_stub_data(stubs_generator=gen, out_path=Path("/out"))
            items = [(str(p), n, t) for p, n, t, _ in data]
            rec["texts"].append(sha(json.dumps(sorted(set(items)))))
            rec["dupfiles"].append(len(items) - len({(p, n) for p, n, _ in items}))
            rec["api"].append(snap())
            if k == 0:
                shown = {}      # the classes may live in different files
                for p, n, t in items:
                    ast, _ = sds.try_parse(t)
                    if ast is None:
                        continue
                    for d in ast.members:
                        if d.kind == "class" and d.pyname in ("SubA", "SubB", "SubC", "SubD", "GenA", "GenB", "GenC"):
                            for m in d.members:
                                if m.pyname in ("shared", "gshared"):      # type parameters, parameters, results and the markers in front of the member
                                    shown[d.pyname] = json.dumps([m.typeparams, [[q["pyname"], q["type"], q["default"]] for q in m.params],
                                                                  [[q.get("type")] for q in m.results], sorted(m.todos)], sort_keys=True, default=str)
                for first, rest in (("SubA", ("SubB", "SubC", "SubD")), ("GenA", ("GenB", "GenC"))):
                    for other in rest:
                        if other in shown and first in shown:
                            rec["same"].append({"a": shown[first], "b": shown[other]})
    except Exception as e:  # noqa: BLE001
        import traceback
        rec["error"] = f"{type(e).__name__}: {e} :: {traceback.format_exc()[-600:]}"
    Path(outp).write_text(json.dumps(rec))


main()
