"""MANIFEST.setup_cmd: verify that the tools the checks need are present and that every spec module parses."""
import subprocess, sys, glob, os
ok = True
for tool in (["java", "-version"], ["/venv/bin/python", "-c", "import safeds_stubgen, mypy, griffe"]):
    if subprocess.run(tool, capture_output=True).returncode != 0:
        print("missing:", tool); ok = False
spec = os.path.join(os.path.dirname(os.path.dirname(os.path.abspath(__file__))), "spec")
for f in sorted(glob.glob(os.path.join(spec, "*.tla"))):
    p = subprocess.run(["tla-sany", f], capture_output=True, text=True, cwd=spec)
    if p.returncode != 0 or "Parsing or semantic analysis failed" in p.stdout or "*** Errors" in p.stdout:
        print("SANY failed:", f); print(p.stdout[-800:]); ok = False
print("setup ok" if ok else "setup FAILED")
sys.exit(0 if ok else 1)
