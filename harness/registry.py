"""Per-property text for MANIFEST.json."""
TECH = "TLA+ spec model-checked with TLC; TLC-enumerated scenarios replayed through the real tool; observed facts judged by a TLA+ trace spec"
BASE_NOTE = ("Trusted: TLC, the hand-written Safe-DS stub parser harness/sds.py (calibrated on the 44 upstream snapshot stubs), "
             "the concretiser (scenario -> Python source), mypy 1.20.2/griffe as installed. Coverage is bounded by the constants in the evidence file.")
REGISTRY = {
    "C06": {"text": "spec/Signature.tla models the analyser's and generator's walk over a parameter list; TLC checks list/default/kind invariants "
                    "for every legal signature up to MaxP parameters x 5 callable kinds and emits each signature as a scenario; all of them are run through the "
                    "real CLI and the parsed stub/JSON parameter lists are compared with the spec's expected facts inside TLC (C06_Trace).",
            "ref": "DESIGN.md section 7 C06", "note": BASE_NOTE, "technique": TECH},
    "C05": {"text": "spec/PyTypes.tla defines the meaning Canon(t) of every annotation term (sets of alternatives, so equivalent spellings coincide) and ObsCanon of a stub type; "
                    "TLC checks compositionality/idempotence laws for every term of the universe (depth 1 full alphabet, depth 2 reduced; thorough: larger) and emits the terms; each term is placed in "
                    "five positions of a real package, run through the CLI, and C05_Trace judges ObsCanon(stub type) = Canon(annotation) per position.",
            "ref": "DESIGN.md section 7 C05", "note": BASE_NOTE, "technique": TECH},
}
NOT_APPLICABLE = {}
