"""Per-property text for MANIFEST.json."""
TECH = "TLA+ spec model-checked with TLC; TLC-enumerated scenarios replayed through the real tool; observed facts judged by a TLA+ trace spec"
BASE_NOTE = ("Trusted: TLC, the hand-written Safe-DS stub parser harness/sds.py (calibrated on the 44 upstream snapshot stubs), "
             "the concretiser (scenario -> Python source), mypy 1.20.2/griffe as installed. Coverage is bounded by the constants in the evidence file.")
REGISTRY = {
    "C06": {"text": "spec/Signature.tla models the analyser's and generator's walk over a parameter list; TLC checks list/default/kind invariants "
                    "for every legal signature up to MaxP parameters x 5 callable kinds and emits each signature as a scenario; all of them are run through the "
                    "real CLI and the parsed stub/JSON parameter lists are compared with the spec's expected facts inside TLC (C06_Trace).",
            "ref": "DESIGN.md section 7 C06", "note": BASE_NOTE, "technique": TECH},
    "C05": {"text": "spec/PyTypes.tla defines the meaning Canon(t) of every annotation term (sets of alternatives, so equivalent spellings coincide) and ObsCanon of a stub type; "
                    "TLC checks compositionality/idempotence laws for every term of the universe (depth 1 full alphabet, depth 2 reduced; thorough: larger) and emits the terms; each term is placed in "
                    "five positions of a real package, run through the CLI, and C05_Trace judges ObsCanon(stub type) = Canon(annotation) per position.",
            "ref": "DESIGN.md section 7 C05", "note": BASE_NOTE, "technique": TECH},
    "C07": {"text": "spec/Results.tla models result construction (Decide annotation/inference -> Name): TLC checks none/tuple/one-result, covering and naming invariants for every "
                    "annotated scenario (60 return annotations x docstring shapes of 4 styles) and every statement tree of return literals up to depth 2 (7.6k bodies), and emits them; "
                    "each is run through the CLI and C07_Trace judges result count/types (equality for annotated, covering for inferred) and names.",
            "ref": "DESIGN.md section 7 C07", "note": BASE_NOTE, "technique": TECH},
    "C14": {"text": "spec/Reconcile.tla models per-slot reconciliation of hint and docstring type with the warning log; TLC checks the choice/warning invariants over all "
                    "slot combinations (<=2 parameters + result, 3 hints x 4 docstring types) x 3 styles x 2 preferences x 2 warning settings and emits 22.6k scenarios; 12 real runs are judged by "
                    "C14_Trace on chosen types, per-function WARNING counts and byte-identity of the output under WARN vs IGNORE.",
            "ref": "DESIGN.md section 7 C14", "note": BASE_NOTE + " Known findings: Google-style result types (see KNOWN_FINDINGS.txt).", "technique": TECH},
    "C20": {"text": "spec/TodoFlush.tla models the pending-marker set (BeginModule/Raise/Flush) and TLC checks exact attribution and no-leak for every sequence of three declaration shapes "
                    "(functions, methods, attributes, classes; visible and skipped) under every raise order; the 5.5k triples are emitted, concretised into one package, run, and C20_Trace judges the marker "
                    "set in front of each of 15k emitted declarations (scenario-side kinds from the scenario, shown kinds from the parsed declaration).",
            "ref": "DESIGN.md section 7 C20", "note": BASE_NOTE + " TODO lines are mapped to marker kinds by keyword, not by exact wording.", "technique": TECH},
    "C09": {"text": "spec/Ident.tla specifies the camel-case conversion twice (declaratively and as a character scanner) and TLC checks they agree for every identifier over {a,b,A,1,_} up to "
                    "length 4 (6 thorough) plus all keyword spellings; every identifier is replayed through the real conversion function (one implementation call per spec behaviour) and through the CLI in "
                    "six declaration positions and module path segments with -nc off and on; C09_Trace judges rendering, annotation-iff-differs, recoverability and the name-free skeleton.",
            "ref": "DESIGN.md section 7 C09", "note": BASE_NOTE + " Result names are judged for rendering only (a result has no Python name to recover).", "technique": TECH},
    "C19": {"text": "spec/ApiTypes.tla gives the intended algebra of the 14 type constructors (order-free Key for sequence-like types) and TLC checks round-trip, reflexivity, symmetry, "
                    "eq=>hash and order-freedom on it for all terms up to depth 2 paired with their related terms (permutation, duplicated element, replaced element, other constructor, boundary twin); "
                    "the 27.7k pairs are replayed on the real classes in-process and C19_Trace evaluates the laws on the logged results of to_dict/from_dict/==/hash (exceptions are failed laws).",
            "ref": "DESIGN.md section 7 C19", "note": "Trusted: TLC; the builder from spec terms to real objects (harness/checks/c19.py). Bounded by the explored depth/alphabet.", "technique": TECH},
    "C03": {"text": "spec/Package.tla defines publicity, exposure by the five re-export forms, allowed homes and the move-not-copy placement machine (Analyse -> Place); TLC checks "
                    "exactly-once/home invariants for universe U1 (declaration kind x name class x module privacy x 4 placements x every re-export form at every non-private ancestor) and emits the scenarios; "
                    "they are packed 40 per package, run through the CLI, and Topo_Trace judges occurrences, owner nesting, home and name of every entity; failures are re-run in isolation before being reported.",
            "ref": "DESIGN.md section 7 C03", "note": BASE_NOTE, "technique": TECH},
    "C04": {"text": "Same specification and runs as C03 (spec/Package.tla): Topo_Trace judges that no non-public entity occurs in any stub file (NoLeak) and that the is_public flags "
                    "of the API JSON equal the spec's Public(entity) for classes, functions, methods, attributes, inner classes and enums.",
            "ref": "DESIGN.md section 7 C04", "note": BASE_NOTE, "technique": TECH},
    "C10": {"text": "spec/Layout.tla derives the virtual files of every U1 scenario and of sets of foreign classes and models create_stub_files as write events (w / first-w-then-a); TLC checks "
                    "no-clobber, create-before-append and stub/placeholder disjointness for every write order; real runs (absolute, relative, nested-missing output directories, naming conversion on/off, "
                    "foreign classes) are recorded as write-event traces and C10_Trace judges Inside, Spells (directory = announced Python module), Base, NoClobber and the API file name.",
            "ref": "DESIGN.md section 7 C10", "note": BASE_NOTE + " Write events are observed by wrapping pathlib.Path.open in the child process.", "technique": TECH},
    "C12": {"text": "spec/Walker.tla models the pre-order walk with the declaration stack (one Enter/Leave step per node; children registered with API and owner together) and TLC checks "
                    "balance, uniqueness, one-owner and resolution for every module of the universe (classes with constructors, instance attributes, static/class/property/overloaded methods, nesting to depth 3, "
                    "nested enums, multiple and aliased superclasses, private declarations); the 2.1k modules are concretised into one package, run, and C12_Trace judges the JSON per module: validity, sortedness, "
                    "duplicates, id form, dangling references, one owner, completeness against ExpectedInventory, flags and superclass lists.",
            "ref": "DESIGN.md section 7 C12", "note": BASE_NOTE + " Known finding: enums nested in classes.", "technique": TECH},
    "C17": {"text": "spec/Inherit.tla defines private-ancestor sets, distances, required/allowed members and winners (nearest definer or Python's resolution order) and models the generator's "
                    "inlining walk with the carried set of defined names; TLC checks once/all/precedence for every legal hierarchy of 3 classes (public/private, ordered base lists, method subsets, optionally "
                    "split over two modules) and for 4-class diamonds; the 2.8k hierarchies are run and C17_Trace judges member multiplicity, winning definition, sub clause (no private names, public bases in order) and imports.",
            "ref": "DESIGN.md section 7 C17", "note": BASE_NOTE + " Known finding: private diamonds are inlined depth first.", "technique": TECH},
    "C15": {"text": "spec/Discover.tla models file discovery as one Visit step per file with the directory-segment filter and TLC checks Off/On/order-freedom for every small tree (one filtered "
                    "location, optionally one look-alike) under every visiting order, and for the tree that contains every location of depth <= 2 over 8 directory names x 4 file names; the trees are built "
                    "on disk (each its own root), run with and without -tr, and C15_Trace judges per file: presence in JSON and stubs under both settings and byte-identity of unaffected stubs.",
            "ref": "DESIGN.md section 7 C15", "note": BASE_NOTE, "technique": TECH},
    "C13": {"text": "spec/DocCache.tla models the one-entry docstring cache (Consult with the __init__ refresh rule; class-then-constructor fallback) and TLC checks cache coherence and "
                    "transparency for every sequence of up to 3 (thorough 4) lookups over 20 lookup/target pairs; all 8000 sequences are replayed on a real DocstringParser for three styles and the tokens in each "
                    "answer judged (own token present, no foreign token). spec/DocAttach.tla models per-declaration attachment; every order of four documented elements x four styles is run end to end and "
                    "C13_Trace judges, per documentation comment, which element/tag each unique token sits on, the description lines, and equality of comments across the structured styles.",
            "ref": "DESIGN.md section 7 C13", "note": BASE_NOTE + " Tokens are extracted from answers/comments by the harness.", "technique": TECH},
    "C11": {"text": "spec/Closure.tla extends the topology universe with a second module that references the (possibly moved, aliased, module-re-exported) class in five positions, imports computed "
                    "from final homes; TLC checks closure and import resolution for all 866 scenarios and emits them; they are packed, run with naming conversion off and on (plus foreign and generic foreign "
                    "classes), and C11_Trace resolves every type/superclass reference and every import of every stub file against the declarations of all stub files of the run.",
            "ref": "DESIGN.md section 7 C11", "note": BASE_NOTE + " 20 known-finding signatures (alias re-exports, module re-exports, moved class used in its own module).", "technique": TECH},
    "C16": {"text": "spec/RunHistory.tla models histories of generations (same generator object / fresh generator) over an API model and TLC checks purity and idempotence of the promised design for "
                    "every history of 3 operations x 6 feature packages (Literal|None, *args tuples, alias re-exports, foreign classes, a method inherited by two subclasses, all together); every history is "
                    "replayed on a freshly analysed real API object in its own process (API.to_dict() digests around every generation, text digests per generation, renderings of the shared inherited member), and "
                    "CLI re-runs into a populated and an empty output directory are compared; C16_Trace judges Pure, Idem, SameEverywhere and Rerun.",
            "ref": "DESIGN.md section 7 C16", "note": BASE_NOTE, "technique": TECH},
    "C08": {"text": "spec/Determinism.tla models the two ways an iteration order is consumed (Choose the minimum of a total order; Emit a collection sorted) and TLC checks order-independence for every "
                    "candidate set of up to three elements under every permutation; it also fixes the environment matrix (baseline, hash seeds, enumeration orders, working directory, path spellings, repetition, mixed). "
                    "Two packages rich in multi-element unordered collections (re-export ties at equal depth, several type variables, inferred return types, duplicate short names, many imports, unions, markers, "
                    "foreign classes) are run under every environment and C08_Trace judges equality of the complete output digest against the baseline run.",
            "ref": "DESIGN.md section 7 C08", "note": BASE_NOTE + " Seeds and enumeration orders are sampled, not exhausted.", "technique": TECH},
    "C18": {"text": "spec/Locality.tla models a module's stub as a function of its dependencies (itself, referenced modules, re-exporting inits) and TLC checks Local/Permute for 4 base packages x 6 "
                    "perturbations (add, add-with-same-names, rename, change, remove an unrelated module; permute the module's own declarations); each pair is realised as two real runs and C18_Trace judges "
                    "byte identity of the observed module's stub, or equality of the bag of declaration blocks and of the header for permutations.",
            "ref": "DESIGN.md section 7 C18", "note": BASE_NOTE, "technique": TECH},
    "C02": {"text": "spec/SdsGrammar.tla is an LL(1) push-down recogniser of the stub grammar over token classes (one action per token; keywords used as names have no transition), checked by TLC "
                    "against its own accept/reject suite; spec/Hostile.tla models escaping of hostile text and TLC checks that escaped strings scan closed and documentation cannot close its comment for every "
                    "symbol sequence up to length 3, emitting the sequences; spec/Ident.tla provides the 33-keyword table. The corpora (every keyword and its -nc spellings in 13 declaration/path positions, "
                    "258 hostile strings as defaults and Literal values, 258 hostile docstrings x 4 styles) are run and the token classes of every stub file are fed through the recogniser in TLC (C02_Trace); "
                    "the 44 upstream snapshot stubs calibrate it.",
            "ref": "DESIGN.md section 7 C02", "note": "Trusted: TLC; the hand-written lexer harness/sds.py; 'valid' means accepted by SdsGrammar.tla (no reference Safe-DS parser is available offline); raw newlines and '{{' in strings are accepted.", "technique": TECH},
    "C01": {"text": "spec/Pipeline.tla models a run as a program-counter machine (discover, build, aliases, walk, json, generate, write; rejected only for empty discovery) over a universe of 121 "
                    "declaration forms (parameter kinds, 29 return-expression kinds, 24 initializer kinds, 31 class/function forms, re-export forms, foreign classes, module-level code, docstrings incl. malformed "
                    "ones) x 64 option sets, with totality of every dispatch as invariants and termination as a liveness property; every form is run alone, all forms together under all 64 option sets, failing "
                    "packs are bisected, empty inputs must be rejected with the documented error; C01_Trace judges every run's outcome.",
            "ref": "DESIGN.md section 7 C01", "note": "Trusted: TLC; the child-process recorder (exception type and innermost safeds_stubgen frame); mypy 1.20.2. 'All packages' is explored over the listed declaration forms, not all of Python.", "technique": TECH},
}
NOT_APPLICABLE = {}
