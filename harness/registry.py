"""Per-property text for MANIFEST.json."""
TECH = "TLA+ spec model-checked with TLC; TLC-enumerated scenarios replayed through the real tool; observed facts judged by a TLA+ trace spec"
BASE_NOTE = ("Trusted: TLC, the hand-written Safe-DS stub parser harness/sds.py (calibrated on the 44 upstream snapshot stubs), "
             "the concretiser (scenario -> Python source), mypy 1.20.2/griffe as installed. Coverage is bounded by the constants in the evidence file.")
REGISTRY = {
    "C06": {"text": "spec/Signature.tla models the analyser's and generator's walk over a parameter list; TLC checks list/default/kind invariants "
                    "for every legal signature up to MaxP parameters x 5 callable kinds and emits each signature as a scenario; all of them are run through the "
                    "real CLI and the parsed stub/JSON parameter lists are compared with the spec's expected facts inside TLC (C06_Trace).",
            "ref": "DESIGN.md section 7 C06", "note": BASE_NOTE, "technique": TECH},
}
NOT_APPLICABLE = {}
