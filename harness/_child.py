"""Runs one CLI invocation of safe-ds-stubgen in *this* fresh interpreter and records what it did.

Observation only (DESIGN 3.4): wraps pathlib.Path.open (write log), optionally permutes Path.glob results,
installs a logging handler, then calls safeds_stubgen.main.main() exactly as the console script does.
usage: _child.py <args.json>
"""
from __future__ import annotations

import io
import json
import logging
import os
import pathlib
import random
import sys
import traceback


def main() -> None:
    args = json.loads(pathlib.Path(sys.argv[1]).read_text())
    # as with `python -m safeds_stubgen.main`: the working directory is the first entry of the module search path
    sys.path.insert(0, os.getcwd())
    rec: dict = {"writes": [], "warnings": [], "exit": "?", "exc": "", "frame": "", "msg": ""}

    orig_open = pathlib.Path.open

    class _W:
        def __init__(self, f, path, mode):
            self._f, self._p, self._m, self._buf = f, path, mode, []

        def write(self, s):
            self._buf.append(s)
            return self._f.write(s)

        def __enter__(self):
            return self

        def __exit__(self, *a):
            self.close()
            return False

        def close(self):
            if self._f is not None:
                self._f.close()
                self._f = None
                rec["writes"].append({"path": str(self._p), "mode": self._m, "text": "".join(self._buf)})

        def __getattr__(self, n):
            return getattr(self._f, n)

    def open_(self, mode="r", *a, **k):
        f = orig_open(self, mode, *a, **k)
        if any(c in mode for c in "wax+") and "b" not in mode:
            # every text file the tool writes, wherever it lies; the path as the file system sees it ("//tmp/x" is "/tmp/x")
            return _W(f, os.path.realpath(str(self)), mode)
        return f

    pathlib.Path.open = open_

    gp = args.get("globperm")
    if gp is not None:
        orig_glob = pathlib.Path.glob

        def glob_(self, *a, **k):
            items = list(orig_glob(self, *a, **k))
            if str(self).startswith(args["src_abs"]):
                items.sort()
                random.Random(gp).shuffle(items)
            return iter(items)

        pathlib.Path.glob = glob_

    class _H(logging.Handler):
        def emit(self, record):
            try:
                rec["warnings"].append({"level": record.levelname, "msg": record.getMessage()})
            except Exception:  # noqa: BLE001
                pass

    h = _H(level=logging.WARNING)
    logging.getLogger().addHandler(h)

    if args.get("trace_cache"):
        # observation of the one-entry docstring cache at its linearisation point (return of the private lookup)
        try:
            import safeds_stubgen.api_analyzer  # noqa: F401
            from safeds_stubgen.docstring_parsing import _docstring_parser as dp

            rec["cache"] = []
            name = "_DocstringParser__get_cached_docstring"
            orig_lookup = getattr(dp.DocstringParser, name)

            def lookup(self, qname, *a, **k):
                res = orig_lookup(self, qname, *a, **k)
                owner = "@none"
                if res is not None:
                    parent = getattr(res, "parent", None)
                    owner = getattr(parent, "path", "@unknown") if parent is not None else "@detached"
                    if parent is not None and getattr(parent, "docstring", None) is not res:
                        owner = "@own"      # parsed from the text of the declaration itself, listed nowhere in the docstring library's tree
                if len(rec["cache"]) < 200000:
                    rec["cache"].append([qname, owner])
                return res

            setattr(dp.DocstringParser, name, lookup)
        except Exception as e:  # noqa: BLE001
            rec["cache_error"] = f"{type(e).__name__}: {e}"

    if args.get("trace_walk"):
        # observation of the AST walk: one event per enter/leave callback, in order
        try:
            from safeds_stubgen.api_analyzer import _ast_walker as aw

            rec["walk"] = []

            def describe(node):
                k = type(node).__name__
                if k == "MypyFile":
                    return "module", node.fullname
                if k == "ClassDef":
                    enum = any(getattr(b, "fullname", "") in ("enum.Enum", "enum.IntEnum", "enum.StrEnum", "enum.Flag", "enum.IntFlag") for b in node.base_type_exprs)
                    return ("enum" if enum else "class"), node.name
                if k == "FuncDef":
                    return "func", node.name
                if k == "AssignmentStmt":
                    names = []
                    for lv in node.lvalues:
                        if hasattr(lv, "items"):
                            names += [getattr(i, "name", "?") for i in lv.items]
                        else:
                            names.append(getattr(lv, "name", "?"))
                    return "assign", ",".join(names)
                return k, getattr(node, "name", "?")

            # all or nothing: a walker whose private callbacks are named differently is not traced at all
            origs = {attr: getattr(aw.ASTWalker, attr) for attr in ("_ASTWalker__enter", "_ASTWalker__leave")}
            for phase, attr in (("enter", "_ASTWalker__enter"), ("leave", "_ASTWalker__leave")):
                orig = origs[attr]

                def wrapped(self, node, _orig=orig, _phase=phase):
                    if len(rec["walk"]) < 400000:
                        rec["walk"].append([_phase, *describe(node)])
                    return _orig(self, node)

                setattr(aw.ASTWalker, attr, wrapped)
        except Exception as e:  # noqa: BLE001
            rec["walk_error"] = f"{type(e).__name__}: {e}"

    if args.get("trace_todo"):
        # observation of the TODO-marker bookkeeping of the stub generator: every add to the pending set ("raise"), every
        # flush with the set it wrote, and the entry of every declaration renderer, in order
        try:
            import safeds_stubgen.api_analyzer  # noqa: F401
            from safeds_stubgen.stubs_generator import _stub_string_generator as sg

            G = sg.StubsStringGenerator
            # all or nothing: a generator whose private helpers are named differently is not traced at all
            needed = ("_create_class_string", "_create_function_string", "_create_property_function_string", "_create_class_attribute_string",
                      "_create_class_method_string", "_create_enum_string", "_create_module_string", "create_reexport_module_strings", "_create_todo_msg")
            missing = [nm for nm in needed if not hasattr(G, nm)]
            if missing:
                raise AttributeError("not traceable, missing: " + ", ".join(missing))
            rec["todo"] = []

            def ev(*a):
                if len(rec["todo"]) < 2000000:
                    rec["todo"].append(list(a))

            class LogSet(set):
                def add(self, x):
                    ev("raise", x)
                    return set.add(self, x)

            G._current_todo_msgs = property(lambda self: self.__dict__.get("_sdsv_ctm"),
                                            lambda self, val: self.__dict__.__setitem__("_sdsv_ctm", LogSet(val)))

            def wrap(name, enter=None, leave=None):
                orig = getattr(G, name)

                def w(self, *a, **k):
                    if enter:
                        ev(enter, name)
                    try:
                        return orig(self, *a, **k)
                    finally:
                        if leave:
                            ev(leave, name)
                setattr(G, name, w)

            for nm in ("_create_class_string", "_create_function_string", "_create_property_function_string", "_create_class_attribute_string",
                       "_create_class_method_string", "_create_enum_string"):
                wrap(nm, enter="enter")
            wrap("_create_module_string", enter="begin", leave="end")
            wrap("create_reexport_module_strings", enter="begin-reexports", leave="end")
            orig_flush = G._create_todo_msg

            def flush(self, indentations):
                before = sorted(self._current_todo_msgs)
                out = orig_flush(self, indentations)
                ev("flush", before, out.count("// TODO"), len(self._current_todo_msgs))
                return out

            G._create_todo_msg = flush
        except Exception as e:  # noqa: BLE001
            rec["todo_error"] = f"{type(e).__name__}: {e}"

    sys.argv = ["safe-ds-stubgen", *args["argv"]]
    so = io.StringIO()
    old = sys.stdout
    sys.stdout = so
    try:
        from safeds_stubgen.main import main as tool_main

        tool_main()
        rec["exit"] = "ok"
    except SystemExit as e:
        rec["exit"] = "ok" if e.code in (0, None) else f"sysexit:{e.code}"
    except BaseException as e:  # noqa: BLE001
        tb = traceback.extract_tb(e.__traceback__)
        frame = ""
        for fr in tb:
            if "safeds_stubgen" in fr.filename:
                frame = f"{pathlib.Path(fr.filename).name}:{fr.name}"
        rec["exc"] = type(e).__name__
        rec["msg"] = str(e)[:300]
        rec["frame"] = frame
        rec["tb"] = "".join(traceback.format_exception(e))[-3000:]
        if isinstance(e, ValueError) and str(e) == "No files found to analyse.":
            rec["exit"] = "rejected"
        elif type(e).__name__ == "CompileError":
            rec["exit"] = "notloadable"
        else:
            rec["exit"] = "crash"
    finally:
        sys.stdout = old
    pathlib.Path(args["record"]).write_text(json.dumps(rec))


if __name__ == "__main__":
    main()
