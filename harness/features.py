"""Concretiser for the declaration-form universe of spec/Pipeline.tla: one small module per feature. No oracle logic."""
from __future__ import annotations

RETURN = {
    "int": "1", "float": "1.5", "str": '"s"', "bool": "True", "none": "None", "name": "x", "tuple": '(1, "s")', "unary": "-1", "call": "len(y)",
    "member": "y.real", "conditional": "1 if x else 2.5", "binop": "x + 1", "list": "[1, 2]", "dict": '{"a": 1}', "set": "{1, 2}", "compare": "x < 2",
    "index": "y[0]", "lambda": "lambda q: q", "listcomp": "[q for q in y]", "fstring": 'f"{x}!"', "bytes": 'b"ab"', "complex": "1j", "ellipsis": "...",
    "boolop": "x and y", "walrus": "(z := 3)", "starred-tuple": "(*y, 1)",
}
INIT = {
    "int": "1", "float": "1.5", "str": '"s"', "bool": "True", "none": "None", "name": "CONST", "call": "list()", "neg-int": "-1", "not-bool": "not True",
    "neg-name": "-CONST", "empty-tuple": "()", "tuple": "(1, 2)", "list": "[]", "dict": "{}", "binop": "1 + 2", "member": "math.pi", "lambda": "lambda: 1",
    "double-sign": "--1", "sign-of-signed-float": "- -1.5", "plus-minus": "+-1", "neg-bool": "-True", "invert": "~5", "neg-str": '-"s"', "huge-float": "-1e999",
    "bytes": 'b"x"', "complex": "2j", "ellipsis": "...", "set": "{1}", "index": "TABLE[0]", "conditional": "1 if CONST else 2", "fstring": 'f"{CONST}"',
}
CLASS = {
    "plain": "class K:\n    def m(self, a: int) -> int:\n        ...\n",
    "nested": "class K:\n    class Inner:\n        class Deep:\n            def m(self) -> int:\n                ...\n",
    "property": "class K:\n    @property\n    def p(self) -> int:\n        ...\n",
    "property-setter": "class K:\n    @property\n    def p(self) -> int:\n        ...\n\n    @p.setter\n    def p(self, v: int) -> None:\n        ...\n\n    @p.deleter\n    def p(self) -> None:\n        ...\n",
    "overload": "from typing import overload\n\n\nclass K:\n    @overload\n    def m(self, a: int) -> int: ...\n\n    @overload\n    def m(self, a: str) -> str: ...\n\n    def m(self, a):\n        return a\n",
    "overload-module": "from typing import overload\n\n\n@overload\ndef f(a: int) -> int: ...\n\n\n@overload\ndef f(a: str) -> str: ...\n\n\ndef f(a):\n    return a\n",
    "staticmethod": "class K:\n    @staticmethod\n    def s(self, a: int) -> int:\n        ...\n",
    "classmethod": "class K:\n    @classmethod\n    def c(cls, a: int) -> \"K\":\n        ...\n",
    "abstract": "from abc import ABC, abstractmethod\n\n\nclass K(ABC):\n    def __init__(self, a: int):\n        self.a = a\n\n    @abstractmethod\n    def m(self) -> int:\n        ...\n\n\nclass L(K):\n    def m(self) -> int:\n        return 1\n",
    "dataclass": "from dataclasses import dataclass, field\n\n\n@dataclass\nclass K:\n    a: int\n    b: str = \"x\"\n    c: list[int] = field(default_factory=list)\n",
    "exception": "class MyError(Exception):\n    def __init__(self, msg: str):\n        super().__init__(msg)\n\n\nclass Sub(MyError):\n    pass\n\n\ndef f() -> MyError:\n    ...\n",
    "enum": "from enum import Enum\n\n\nclass E(Enum):\n    A = 1\n    B = \"b\"\n    C, D = 3, 4\n\n\ndef f(e: E = E.A) -> E:\n    ...\n",
    "intenum": "from enum import IntEnum\n\n\nclass E(IntEnum):\n    A = 1\n\n    def describe(self) -> str:\n        return \"a\"\n",
    "enum-empty": "from enum import Enum\n\n\nclass E(Enum):\n    pass\n",
    "nested-enum": "from enum import Enum\n\n\nclass K:\n    class E(Enum):\n        A = 1\n\n    def m(self, e: \"K.E\") -> int:\n        ...\n",
    "generic": "from typing import Generic, TypeVar\n\nT = TypeVar(\"T\")\nU = TypeVar(\"U\")\n\n\nclass K(Generic[T, U]):\n    def __init__(self, a: T, b: U):\n        self.a = a\n\n    def m(self, x: T) -> U:\n        ...\n",
    "generic-bound": "from typing import Generic, TypeVar\n\n\nclass B:\n    pass\n\n\nT = TypeVar(\"T\", bound=B)\n\n\nclass K(Generic[T]):\n    def m(self, x: T) -> T:\n        ...\n\n\ndef f(x: T) -> list[T]:\n    ...\n",
    "generic-constraints": "from typing import Generic, TypeVar\n\nT = TypeVar(\"T\", int, str)\n\n\nclass K(Generic[T]):\n    def m(self, x: T) -> T:\n        ...\n",
    "generic-variance": "from typing import Generic, TypeVar\n\nTco = TypeVar(\"Tco\", covariant=True)\nTcontra = TypeVar(\"Tcontra\", contravariant=True, bound=int)\n\n\nclass K(Generic[Tco, Tcontra]):\n    def m(self, x: Tcontra) -> Tco:\n        ...\n",
    "protocol": "from typing import Protocol, runtime_checkable\n\n\n@runtime_checkable\nclass P(Protocol):\n    def m(self) -> int: ...\n\n\ndef f(p: P) -> int:\n    ...\n",
    "namedtuple": "from typing import NamedTuple\n\n\nclass N(NamedTuple):\n    a: int\n    b: str = \"x\"\n\n\ndef f() -> N:\n    ...\n",
    "class-attr-forms": "from typing import ClassVar, Final\n\n\nclass K:\n    a = 1\n    b: int\n    c: ClassVar[int] = 2\n    d: Final = 3\n    e: Final[int] = 4\n    f, g = 1, \"s\"\n    h = i = 5\n    j: list[int, str] = []\n    k = None\n    l = lambda self: 1\n",
    "slots": "class K:\n    __slots__ = (\"a\", \"b\")\n\n    def __init__(self):\n        self.a = 1\n        self.b: str = \"s\"\n",
    "init-tuple-unpack": "class K:\n    def __init__(self, p: tuple[int, str]):\n        self.a, self.b = p\n        self.c = self.d = 1\n        x = 3\n        self.e: int\n",
    "multiple-inheritance": "class A:\n    pass\n\n\nclass B:\n    pass\n\n\nclass _P:\n    def pm(self) -> int:\n        ...\n\n\nclass K(A, B, _P):\n    pass\n",
    "private-base": "class _Base:\n    def shown(self, a: int) -> int:\n        ...\n\n    class Inner:\n        pass\n\n\nclass _Mid(_Base):\n    pass\n\n\nclass K(_Mid):\n    pass\n",
    "metaclass": "class Meta(type):\n    def __call__(cls, *a, **k):\n        return super().__call__(*a, **k)\n\n\nclass K(metaclass=Meta):\n    pass\n",
    "inner-function": "def outer(a: int) -> int:\n    def inner(b: int) -> int:\n        return b\n\n    class Local:\n        pass\n\n    return inner(a)\n",
    "global-assign": "import os\n\nCONST = 1\nNAMES: list[str] = []\nA, B = 1, 2\n_PRIVATE = os.sep\n\n\ndef f() -> int:\n    return CONST\n",
    "async-def": "import asyncio\n\n\nasync def f(a: int) -> int:\n    await asyncio.sleep(0)\n    return a\n\n\nclass K:\n    async def m(self):\n        return await f(1)\n",
    "decorated": "import functools\n\n\ndef deco(fn):\n    @functools.wraps(fn)\n    def wrapper(*a, **k):\n        return fn(*a, **k)\n\n    return wrapper\n\n\n@deco\ndef f(a: int) -> int:\n    return a\n\n\nclass K:\n    @functools.cached_property\n    def cp(self) -> int:\n        return 1\n\n    @deco\n    def m(self) -> int:\n        return 2\n",
}
CLASS.update({
    "names-with-double-underscore": "def load__raw_data(first__arg: int, _: int = 0, __: int = 1) -> int:\n    ...\n\n\nclass Data__Set:\n    some__attr: int = 1\n\n    def get__it(self, x__y: int) -> int:\n        ...\n\n\ndef __(x: int) -> int:\n    ...\n\n\ndef trailing__(a: int) -> int:\n    ...\n",
    "generic-paramspec": "from typing import Callable, Generic, ParamSpec, TypeVar\n\nP = ParamSpec(\"P\")\nT = TypeVar(\"T\")\n\n\nclass Handler(Generic[P]):\n    def call(self, *args: P.args, **kwargs: P.kwargs) -> int:\n        ...\n\n\n"
                         "class Both(Generic[T, P]):\n    def __init__(self, f: Callable[P, T]):\n        self.f = f\n\n    def m(self, x: T) -> T:\n        ...\n\n\ndef deco(f: Callable[P, T]) -> Callable[P, T]:\n    ...\n",
    "generic-typevartuple": "from typing import Generic, TypeVarTuple, Unpack\n\nTs = TypeVarTuple(\"Ts\")\n\n\nclass Shape(Generic[Unpack[Ts]]):\n    def dims(self) -> int:\n        ...\n\n\nclass Star(Generic[*Ts]):\n    def dims(self, *a: *Ts) -> int:\n        ...\n",
    "recursive-alias": "from typing import Union\n\nJson = Union[dict[str, \"Json\"], list[\"Json\"], str, int, float, bool, None]\n\n\ndef dump(data: Json) -> str:\n    ...\n\n\ndef load(text: str) -> Json:\n    ...\n",
    "recursive-namedtuple": "from typing import NamedTuple\n\n\nclass Node(NamedTuple):\n    value: int\n    children: list[\"Node\"]\n\n\nclass Pair(NamedTuple):\n    x: int\n    y: str\n\n\ndef depth(node: Node) -> int:\n    ...\n\n\ndef mk(p: Pair) -> Pair:\n    ...\n",
})
CLASS.update({
    "subscript-assign": "class K:\n    registry = {}\n    registry[\"a\"] = 1\n\n    def __init__(self):\n        self.cache = {}\n        self.cache[\"k\"] = 2\n        self.items = [0]\n        self.items[0] += 1\n",
    "starred-assign": "class K:\n    first, *rest = [1, 2, 3]\n\n    def __init__(self):\n        self.a, *self.b = [1, 2, 3]\n\n\nhead, *tail = [1, 2]\n",
    "private-foreign-base": "import argparse\n\n\nclass K(argparse._ActionsContainer):\n    def own(self) -> int:\n        ...\n",
    "foreign-base-with-private-ancestors": "import argparse\nfrom collections import UserDict\n\n\nclass K(argparse.ArgumentParser):\n    def own(self) -> int:\n        ...\n\n\nclass L(UserDict):\n    pass\n",
    "generic-named-like-builtin": "from typing import Generic, TypeVar\n\nT = TypeVar(\"T\")\n\n\nclass Mapping(Generic[T]):\n    pass\n\n\nclass Collection(Generic[T]):\n    pass\n\n\nclass float:\n    pass\n\n\ndef f(a: Mapping[int], b: Collection[int], c: float) -> int:\n    ...\n",
    "strenum-flag": "from enum import Flag, IntFlag, StrEnum, auto\n\n\nclass S(StrEnum):\n    A = \"a\"\n    B = auto()\n\n\nclass F(Flag):\n    X = auto()\n    Y = auto()\n    Z = X | Y\n\n\nclass G(IntFlag):\n    P = 1\n\n\ndef f(s: S = S.A, g: F = F.X) -> G:\n    ...\n",
    "attribute-docstrings": "X = 1\n\"\"\"Docstring of X.\"\"\"\n\n\nclass K:\n    \"\"\"Class doc.\"\"\"\n\n    a: int = 1\n    \"\"\"Docstring of a.\"\"\"\n\n    def m(self) -> int:\n        \"\"\"Method doc.\"\"\"\n        x = 1\n        \"\"\"not a docstring\"\"\"\n        return x\n",
    "redefinition": "def f(a: int) -> int:\n    ...\n\n\ndef f(a: str) -> str:  # noqa: F811\n    ...\n\n\nclass K:\n    def m(self) -> int:\n        ...\n\n    def m(self) -> str:  # noqa: F811\n        ...\n\n    x = 1\n    x = \"s\"\n",
    "init-conditional-attrs": "class K:\n    def __init__(self, flag: bool, other: \"K\"):\n        if flag:\n            self.a = 1\n        else:\n            self.a = \"s\"\n        for i in range(3):\n            self.b = i\n        other.x = 3\n        u, v = 1, 2\n        with open(\"f\") as self.fh:\n            pass\n",
})
CLASS.update({
    "subscripted-typing-base": "from collections.abc import Sequence\nfrom typing import Generic, Iterator, TypeVar\n\nT = TypeVar(\"T\")\n\n\nclass Ints(Sequence[int]):\n    def __getitem__(self, i):\n        return 1\n\n    def __len__(self) -> int:\n        return 1\n\n\nclass Box(Generic[T]):\n    pass\n\n\nclass IntBox(Box[int]):\n    pass\n\n\nclass It(Iterator[str]):\n    def __next__(self) -> str:\n        return \"\"\n",
    "namespace-base": "from types import SimpleNamespace\n\n\nclass _B:\n    pass\n\n\nns = SimpleNamespace(Base=_B)\n\n\nclass Derived(ns.Base):\n    def m(self) -> int:\n        ...\n",
    "enum-subscript-assign": "from enum import Enum\n\n\nclass E(Enum):\n    A = 1\n    _lookup = {}\n    _lookup[\"a\"] = 2\n",
    "enum-nested-tuple-target": "from enum import Enum\n\n\nclass E(Enum):\n    (A, B), C = (1, 2), 3\n    D, *REST = 4, 5, 6\n",
    "variable-as-annotation": "from typing import Any\n\nThing: Any = object\nOther = int if True else str\n\n\ndef f(a: Thing, b: Other) -> Thing:\n    ...\n\n\nclass K:\n    x: Thing\n",
})
CLASS.update({
    "enum-via-module-with-methods": "import enum\n\n\nclass Level(enum.Enum):\n    LOW = 1\n    HIGH = 2\n\n    def is_loud(self) -> bool:\n        return self is Level.HIGH\n\n    @property\n    def label(self) -> str:\n        return self.name\n\n    class Nested:\n        pass\n\n\nclass Bits(enum.IntFlag):\n    A = 1\n\n    @classmethod\n    def parse(cls, s: str) -> \"Bits\":\n        return cls.A\n",
    "nested-subscript-typing-base": "from collections.abc import Sequence\n\n\nclass Rows(Sequence[list[int]]):\n    def __getitem__(self, i):\n        return []\n\n    def __len__(self) -> int:\n        return 0\n\n\nclass Node(Sequence[\"Node\"]):\n    def __getitem__(self, i):\n        return self\n\n    def __len__(self) -> int:\n        return 0\n",
    "protocol-overloads-only": "from typing import Protocol, overload\n\n\nclass P(Protocol):\n    \"\"\"A protocol.\"\"\"\n\n    @overload\n    def m(self, a: int) -> int: ...\n\n    @overload\n    def m(self, a: str) -> str: ...\n",
    "self-typevar-inferred": "from typing import TypeVar\n\nT = TypeVar(\"T\", bound=\"K\")\n\n\nclass K:\n    def clone(self: T):\n        return self\n\n    def other(self: T, x: int) -> T:\n        return self\n",
    "code-after-module-raise": "def before(a: int) -> int:\n    ...\n\n\nraise RuntimeError(\"not importable\")\n\n\ndef after(a, b=1):\n    return a\n\n\nclass K:\n    def m(self, x):\n        return x\n",
})
FOREIGN = {
    "one-segment": "def f(x):\n    return x\n\n\ndef g(y):\n    return y, 1\n",
    "two-segment": "from pathlib import Path\n\n\ndef f(p: Path) -> Path:\n    ...\n",
    "three-segment": "from collections.abc import Sized\nfrom xml.etree.ElementTree import Element\n\n\ndef f(s: Sized, e: Element) -> int:\n    ...\n",
    "generic": "from collections import OrderedDict, Counter\nfrom collections.abc import Coroutine, Iterator\n\n\ndef f(o: OrderedDict[str, int], c: Counter[str]) -> Iterator[int]:\n    ...\n\n\ndef g() -> Coroutine[int, str, bool]:\n    ...\n",
    "as-superclass": "from pathlib import PurePath\nfrom collections import OrderedDict\n\n\nclass K(PurePath):\n    pass\n\n\nclass L(OrderedDict[str, int]):\n    pass\n",
    "typing-special": "from typing import Any, Type, Iterable, NoReturn, Self, TypeAlias, Annotated, ClassVar, Never\n\nAlias: TypeAlias = int | str\n\n\nclass K:\n    def m(self) -> Self:\n        return self\n\n    def n(self, t: Type[int], i: Iterable[str], a: Annotated[int, \"meta\"], al: Alias) -> NoReturn:\n        raise ValueError\n\n\ndef f(t: type[K]) -> type:\n    ...\n",
}
MODCODE = {
    "module-level-function-named-init": "def __init__(self, x: int = ..., y=...):\n    ...\n\n\ndef __new__(cls, a=1):\n    ...\n\n\ndef plain(a=...) -> int:\n    ...\n",
    "member-func-call": "import {pkg}.helpers as h\nimport {pkg}.helpers\n\nVALUE = h.helper_fun(1)\nOTHER = {pkg}.helpers.helper_fun(2)\n\n\ndef f() -> int:\n    return h.helper_fun(3)\n",
    "member-class-use": "import {pkg}.helpers as h\n\nINSTANCE = h.HelperCls()\n\n\ndef f(a: h.HelperCls) -> h.HelperCls:\n    return h.HelperCls()\n\n\nclass K(h.HelperCls):\n    pass\n",
    "member-const": "import {pkg}.helpers as h\n\nX = h.HELPER_CONST\n\n\ndef f(a: int = h.HELPER_CONST) -> int:\n    return h.HELPER_CONST\n",
    "type-alias": "from typing import Union\n\nfrom {pkg}.helpers import HelperCls\n\nNumber = Union[int, float]\nMaybe = HelperCls | None\nAliasCls = HelperCls\n\n\ndef f(a: Number, b: Maybe, c: AliasCls) -> Number:\n    ...\n",
    "typevar-expr": "from typing import TypeVar, ParamSpec, Callable\n\nT = TypeVar(\"T\")\nP = ParamSpec(\"P\")\n\n\ndef deco(fn: Callable[P, T]) -> Callable[P, T]:\n    return fn\n\n\ndef ident(x: T) -> T:\n    y: T = x\n    return y\n",
    "local-import": "def f() -> int:\n    from {pkg}.helpers import helper_fun\n\n    return helper_fun(1)\n",
    "try-import": "try:\n    import numpy_not_installed as np\nexcept ImportError:\n    np = None\n\n\ndef f(a: \"np.ndarray\") -> int:\n    ...\n",
    "conditional-def": "import sys\n\nif sys.version_info >= (3, 8):\n    def f(a: int) -> int:\n        ...\nelse:\n    def f(a: str) -> str:\n        ...\n\n\nclass K:\n    if sys.platform == \"linux\":\n        x: int = 1\n    else:\n        x: str = \"s\"\n",
    "main-guard": "def f() -> int:\n    return 1\n\n\nif __name__ == \"__main__\":\n    print(f())\n",
}
DOCS = {
    "PLAINTEXT": 'def f(a: int) -> int:\n    """Just text.\n\n    More text: with colon.\n    """\n    ...\n',
    "GOOGLE": 'def f(a: int, *args: int, **kw: str) -> int:\n    """Summary.\n\n    Args:\n        a (int): The a.\n        *args: More.\n        **kw: Keywords.\n\n    Returns:\n        int: The result.\n\n    Raises:\n        ValueError: Never.\n\n    Examples:\n        >>> f(1)\n        1\n    """\n    ...\n\n\nclass K:\n    """Class.\n\n    Attributes:\n        x (int): The x.\n    """\n\n    x: int = 1\n',
    "NUMPYDOC": 'def f(a: int, b="x") -> tuple[int, str]:\n    """Summary.\n\n    Parameters\n    ----------\n    a : int, default=1\n        The a.\n    b : {"x", "y"}, optional\n        The b in the range [0, 1].\n\n    Returns\n    -------\n    first : int\n        One.\n    second : str\n        Two.\n\n    See Also\n    --------\n    other\n\n    Examples\n    --------\n    >>> f(1)\n    ... # more\n    (1, "x")\n    """\n    ...\n',
    "REST": 'def f(a: int) -> int:\n    """Summary.\n\n    :param a: The a.\n    :type a: int\n    :param missing: Not a parameter.\n    :returns: The result.\n    :rtype: int\n    :raises ValueError: never\n    """\n    ...\n',
    "malformed-numpy": 'def f(a, b):\n    """Summary\n\n    Parameters\n    ---\n    a\n    b :\n        text : more : colons\n    Returns\n    -------\n    """\n    ...\n',
    "malformed-google": 'def f(a, b):\n    """Summary\n\n    Args:\n    a: not indented\n        b (unclosed: text\n\n    Returns:\n    """\n    ...\n',
    "malformed-rest": 'def f(a, b):\n    """Summary\n\n    :param: no name\n    :param a b c: too many\n    :type: nothing\n    :rtype:\n    """\n    ...\n',
    "unicode": 'def f(a: str = "\\u00e4\\u4e2d") -> str:\n    """\\u00dcberschrift \\u2013 with dashes \\u4e2d\\u6587.\n\n    Parameters\n    ----------\n    a : str\n        \\u00e4\\u00f6\\u00fc\n    """\n    ...\n',
    "raw-backslash": 'def f(a: str = "\\\\d+") -> str:\n    r"""Matches \\d+ and \\\\ and \\n.\n\n    Parameters\n    ----------\n    a : str\n        A pattern like \\w*.\n    """\n    ...\n',
}
ODD_TYPES = ["int | False | None", "5 | int | str", "str | True | int", '{"a", "b"} or None', "list of int", "callable", "int, optional", "array-like of shape (n,)",
             "int or float, default=1.0", "dict[str, list[int | None]]", "Optional[Union[int, str]]", "tuple[int, ...]", "a.b.C", "'quoted'", "int | (str)", "[int, str]", "lambda x: x"]


def _named_like(style: str) -> str:
    sec = {"numpy": "Parameters\n    ----------\n    a : int\n        The a.\n", "google": "Args:\n        a (int): The a.\n", "rest": ":param a: The a.\n    :type a: int\n"}[style]
    return ('"""Module doc."""\n\n\ndef gadget(a: int) -> int:\n    """Function doc.\n\n    ' + sec + '    """\n    return a\n\n\n'
            'class Gadget:\n    """Class doc."""\n\n    def gadget(self) -> int:\n        """Method doc."""\n        return 1\n\n    def m(self) -> int:\n        """Other doc."""\n        return 1\n')


def _odd(style: str) -> str:
    L = []
    for k, ty in enumerate(ODD_TYPES):
        if style == "numpy":
            doc = f"Summary.\n\n    Parameters\n    ----------\n    p : {ty}\n        The p.\n\n    Returns\n    -------\n    {ty}\n        The result.\n"
        elif style == "google":
            doc = f"Summary.\n\n    Args:\n        p ({ty}): The p.\n\n    Returns:\n        {ty}: The result.\n"
        else:
            doc = f"Summary.\n\n    :param p: The p.\n    :type p: {ty}\n    :returns: The result.\n    :rtype: {ty}\n"
        L.append(f'def odd{k}(p=None):\n    r"""{doc}    """\n    ...\n\n\nclass Odd{k}:\n    r"""Class.\n\n    Attributes\n    ----------\n    at : {ty}\n        The at.\n    """\n\n    at = None\n')
    return "\n".join(L)


DOCS["odd-types-numpy"] = _odd("numpy")
DOCS["odd-types-google"] = _odd("google")
DOCS["odd-types-rest"] = _odd("rest")
HELPERS = "HELPER_CONST = 1\n\n\ndef helper_fun(a: int) -> int:\n    return a\n\n\nclass HelperCls:\n    pass\n"


def module_source(feat: list[str], pkg: str) -> dict:
    """-> {relative path: text} for one feature (module name is derived by the caller)."""
    kind, k = feat
    if kind == "param":
        sig = {"posonly": "a, b=1, /", "pos": "a, b: int = 2", "vararg": "*args, **kwargs", "kwonly": "*, a, b: int = 1", "kwarg": "a, /, b, *c: int, d, e=1, **f: str"}[k]
        return {"m.py": f"def f({sig}):\n    ...\n\n\nclass K:\n    def m(self, {sig}):\n        ...\n\n    def __init__(self, {sig}):\n        ...\n"}
    if kind == "return":
        if k == "self":
            return {"m.py": "class K:\n    def m(self):\n        return self\n\n    @classmethod\n    def c(cls):\n        return cls\n"}
        if k == "await":
            return {"m.py": "async def g() -> int:\n    return 1\n\n\nasync def f():\n    return await g()\n"}
        if k == "yield":
            return {"m.py": "def f(x=0):\n    yield 1\n    return 2\n\n\ndef g():\n    x = yield\n    return x\n"}
        return {"m.py": f"def f(x=0, y=(1, 2)):\n    return {RETURN[k]}\n\n\nclass K:\n    def m(self, x=0, y=(1, 2)):\n        if x:\n            return {RETURN[k]}\n        return 1\n"}
    if kind == "init":
        return {"m.py": f"import math\n\nCONST = 1\nTABLE = [1]\n\n\ndef f(a={INIT[k]}, b: int = {INIT[k]}):\n    ...\n\n\nclass K:\n    def __init__(self, a={INIT[k]}):\n        self.a = a\n\n    x = {INIT[k]}\n"}
    if kind == "class":
        return {"m.py": CLASS[k]}
    if kind == "foreign":
        return {"m.py": FOREIGN[k]}
    if kind == "modcode":
        return {"m.py": MODCODE[k].replace("{pkg}", pkg)}
    if kind == "doc" and k.startswith("member-named-like-module-"):
        return {"gadget.py": _named_like(k.rsplit("-", 1)[1])}
    if kind == "doc" and k.startswith("overload-only-in-package-file-"):
        return {"__init__.py": 'from typing import overload\n\n\n@overload\ndef pick(a: int) -> int: ...\n\n\n@overload\ndef pick(a: str) -> str: ...\n',
                "other.py": 'def run(a: int) -> int:\n    """Run doc."""\n    return a\n'}
    if kind == "doc" and k == "package-file-declarations-named-like-submodules-numpy":
        return {"__init__.py": '"""Package doc."""\n\n\ndef helper(a: int) -> int:\n    """Helper of the package file."""\n    return a\n\n\n'
                               'class widget:\n    """Widget of the package file."""\n\n    def wm(self, q: int) -> int:\n        """Wm doc."""\n        return q\n',
                "helper.py": '"""Module helper doc."""\n\n\ndef run(a: int) -> int:\n    """Run doc."""\n    return a\n',
                "widget.py": '"""Module widget doc."""\n\n\ndef run_w(a: int) -> int:\n    """Run w doc."""\n    return a\n'}
    if kind == "doc" and k == "module-named-like-package-numpy":      # pkg/pkg.py next to pkg/__init__.py
        return {"{sub}.py": 'class Thing:\n    """Class doc.\n\n    Parameters\n    ----------\n    a : int\n        The a.\n    """\n\n    def __init__(self, a: int):\n        self.a = a\n\n\n'
                            'def {sub}(a: int) -> int:\n    """Function named like module and package."""\n    return a\n'}
    if kind == "doc":
        return {"m.py": DOCS[k]}
    if kind == "reexport":
        impl = "class Impl:\n    def m(self) -> int:\n        ...\n\n\ndef impl_fun(a: int) -> int:\n    ...\n\n\n_hidden = 1\n"
        line = {"name": "from ._impl import Impl, impl_fun", "alias": "from ._impl import Impl as Shown, impl_fun as shown_fun", "star": "from ._impl import *",
                "module": "from . import _impl", "modalias": "from . import _impl as impl", "absolute-name": "from {pkg}.{sub}._impl import Impl",
                "all-list": "from ._impl import Impl\n\n__all__ = [\"Impl\", \"missing_name\"]",
                "modalias-and-star": "from . import _impl as impl\nfrom ._impl import *",
                "name-and-alias-of-one-declaration": "from ._impl import Impl\nfrom ._impl import Impl as Shown\nfrom ._impl import impl_fun, impl_fun as shown_fun",
                "type-checking-import": "from typing import TYPE_CHECKING\n\nif TYPE_CHECKING:\n    from ._impl import Impl\n\n__all__ = [\"Impl\"]"}[k]
        return {"__init__.py": line, "_impl.py": impl, "user.py": "from {pkg}.{sub}._impl import Impl\n\n\ndef use(i: Impl) -> Impl:\n    ...\n"}
    raise ValueError(feat)
